(* X_term.v -- calls of XMachine (MapOf, mapof.go) terminate (C13), without any fairness
   assumption on an infinite schedule.
   (T1) SOLO COMPLETION.  In a reachable state that is CALM for thread t -- no other thread
        holds a bucket lock, resizeMu or the resizer role, none is in the wait set of
        resizeCond -- thread t, run alone, is never blocked and finishes its current call
        (reaches PIdle, the XRes label emitted) within [tbound s t] of its own steps, an
        explicit function of the state: length and counter stripes of the current table,
        length of the chain a reader walks, and, for a doCompute that may have to grow the
        table and retry, the number of entries of the table (a grow doubles the length, the
        copy keeps the number of entries and makes the counter exact, and growth needs
        length < counter: at most 1 + entries - length grows).  Covered: every program
        counter, a grow / shrink / Clear performed entirely by t, the retry after its own
        resize, a resize already under way, stale table pointers.
        Needs [ghyp]: grow_needed len sum = true -> len < sum.  WITHOUT it a solo writer
        can grow forever (see [solo_writer_grows_forever]): a finding about the generality
        of the MODEL's parameter, not about mapof.go, whose policy satisfies ghyp.
   (T2) CAN ALWAYS FINISH.  From EVERY reachable state (only threads of a finite list ths ever scheduled) there is a
        finite schedule after which every thread of ths is idle with an empty todo list: no reachable state is doomed,
        in particular no livelock trap ([can_finish], [can_always_finish]).  The schedule is constructed:
          A  every holder of a bucket lock is run alone until it releases it (cs_bounded; nobody else moves);
          M  the holder of resizeMu, if any, is run alone until it releases it (at most 3 steps);
          R  the resizer, if any, is now calm-but-for-waiters: by (T1) it finishes its whole call alone (its broadcast
             wakes the waiters); now nobody holds anything and, by the wait invariant, nobody waits;
          2  every thread of ths in turn: to PIdle (T1), then call after call (T1), alone; the others do not move. *)
From CacheV Require Import Base SpecMap XMachine.
From CacheV.proofs Require Import X_basic X_inv X_c13 X_c16.
From Coq Require Import NArith Lia.
Local Open Scope nat_scope.

Section Term.
  Context {K V : Type}.
  Variable eqd : forall a b : K, {a = b} + {a <> b}.
  Variable hash : K -> N -> N.
  Variable idx : N -> nat -> nat.
  Variable tag : N -> N.
  Variable nslots : nat.
  Variable seeds : nat -> N.
  Variable grow_needed : nat -> Z -> bool.
  Variable shrink_policy : nat -> Z -> bool.
  Variable probe : list (option N) -> N -> list nat.
  Variable nstripes : nat -> nat.
  Variable minlen : nat.
  Variable grow_only : bool.

  Notation xtable := (@xtable K V).
  Notation xstate := (@xstate K V).
  Notation pc := (@pc K V).
  Notation slot := (@slot K V).
  Notation xlabel := (@xlabel K V).
  Notation tab_at := (@tab_at K V nslots nstripes).
  Notation home := (@home K V hash idx).
  Notation step_pc := (@step_pc K V eqd hash idx tag nslots seeds grow_needed shrink_policy probe nstripes minlen grow_only).
  Notation xstep := (@xstep K V eqd hash idx tag nslots seeds grow_needed shrink_policy probe nstripes minlen grow_only).
  Notation xrun := (@xrun K V eqd hash idx tag nslots seeds grow_needed shrink_policy probe nstripes minlen grow_only).
  Notation XInv := (@X_inv.XInv K V hash idx nslots nstripes).
  Notation XW := (@X_c13.XW K V).
  Notation holds := (@holds K V hash idx nslots nstripes).
  Notation valid := (@valid K V hash idx nslots nstripes).

  (* ---------------- which resize carries which continuation ---------------- *)

  Definition kdone (kt : @cont K V) : bool := match kt with KReturn _ => true | KRetry _ => false end.
  Definition hgrow (hn : hint) : bool := match hn with HGrow => true | _ => false end.
  (* only a grow is followed by a retry of the call; a shrink (after a delete) and a Clear return *)
  Definition hk2 (hn : hint) (kt : @cont K V) : Prop := hgrow hn = false -> kdone kt = true.

  Fixpoint rk_ok (p : pc) : Prop :=
    match p with
    | PR_CAS hn kt | PR_Table hn kt | PR_Stat hn kt _ | PR_CpLock hn kt _ _ _ | PR_CpUnlock hn kt _ _ _ => hk2 hn kt
    | PT_Lock (Some hn) kt | PT_Load (Some hn) kt | PT_Wait (Some hn) kt | PT_Waiting (Some hn) kt
    | PT_Relock (Some hn) kt | PT_Unlock (Some hn) kt => hk2 hn kt
    | PR_FastSum _ kt _ _ | PR_ShSum kt _ _ _ => kdone kt = true
    | PW_Unlock _ _ a => match a with PIdle | PStart => False | _ => True end /\ rk_ok a
    | PW_Add _ _ _ a => match a with PRet _ | PR_FastSum _ _ _ _ => True | _ => False end /\ rk_ok a
    | _ => True
    end.

  Definition RK (s : xstate) : Prop := forall t, rk_ok (g_pc s t).

  Lemma some_fst_t {A B} (g : A * B) a b : Some g = Some (a, b) -> a = fst g.
  Proof. intros H. inversion H. reflexivity. Qed.

  Lemma goto_state_t (s : xstate) t p ls : fst (goto s t p ls) = set_pc s t (norm p).
  Proof. destruct p; reflexivity. Qed.

  Ltac step_cases Hs :=
    cbn [XMachine.step_pc] in Hs; cbv zeta in Hs;
    repeat match type of Hs with
           | context [match ?x with _ => _ end] => destruct x eqn:?
           end;
    try discriminate; apply some_fst_t in Hs; subst; rewrite ?goto_state_t; cbn [fst].

  Lemma wake_rk (p : pc) : rk_ok p -> rk_ok (wake p).
  Proof. destruct p; cbn; auto. Qed.
  Lemma norm_rk (p : pc) : rk_ok p -> rk_ok (norm p).
  Proof. destruct p; cbn; auto. Qed.

  Lemma RK_step_pc s t p s' ls : RK s -> g_pc s t = p -> step_pc s t p = Some (s', ls) -> RK s'.
  Proof.
    intros HK Hp Hs. pose proof (HK t) as Ht. rewrite Hp in Ht.
    assert (Hoth : forall S0 q, (forall t', g_pc S0 t' = g_pc s t' \/ g_pc S0 t' = wake (g_pc s t')) -> rk_ok q -> RK (set_pc S0 t (norm q))).
    { intros S0 q Ho Hq t'. cbn [set_pc g_pc]. destruct (Nat.eq_dec t' t); [apply norm_rk; exact Hq|].
      destruct (Ho t') as [E|E]; rewrite E; [apply HK | apply wake_rk; apply HK]. }
    destruct p; step_cases Hs;
      try change (set_pc s t PIdle) with (set_pc s t (norm (@PIdle K V)));
      (apply Hoth; [intros t'; cbn [g_pc set_tab set_flags push_tab]; first [left; reflexivity | right; reflexivity] |]).
    all: cbn [rk_ok] in *; unfold hk2 in *; cbn [hgrow kdone] in *; auto.
    all: try match goal with |- context [run_cont ?kt] => destruct kt; cbn; auto end.
    all: try (destruct hn; cbn [rk_ok hgrow] in *; auto).
    all: try discriminate.
    all: try (intros; reflexivity).
    all: try tauto.
  Qed.


  (* ---------------- the quantities the bound is made of ---------------- *)

  Definition has_ent (sl : slot) : bool := match s_ent sl with Some _ => true | None => false end.
  Definition nentc (c : list slot) : nat := length (filter has_ent c).
  Fixpoint lsum (l : list nat) : nat := match l with [] => 0 | x :: r => x + lsum r end.
  (* entries of the chains i, i+1, ... of a table; all entries *)
  Definition rest_ent (tb : xtable) (i : nat) : nat := lsum (map nentc (skipn i (x_chains tb))).
  Definition ecount (tb : xtable) : nat := rest_ent tb 0.
  Definition rest_sz (tb : xtable) (i : nat) : Z := sum_z (skipn i (x_size tb)).
  Definition szsum (tb : xtable) : Z := sum_z (x_size tb).

  Definition LEN (s : xstate) (j : nat) : nat := x_len (tab_at s j).
  Definition NS (s : xstate) (j : nat) : nat := nstr (tab_at s j).
  Definition EC (s : xstate) (j : nat) : nat := ecount (tab_at s j).
  Definition SZ (s : xstate) (j : nat) : Z := szsum (tab_at s j).

  (* how many grows can still follow: the counter value S the next decision will see, the entries E, the length L.
     A grow needs L < S (ghyp); after it the counter is exact (S = E), E is unchanged and L has doubled *)
  Definition gof (S : Z) (E L : nat) : nat := (if Z.eqb S (Z.of_nat E) then 0 else 1) + (E - L).

  (* one attempt of doCompute on a table of length L with ns stripes, a resize included, and the attempts after g grows *)
  Fixpoint Acost (g L ns : nat) : nat :=
    2 * ns + 2 * L + 30 + match g with 0 => 0 | S g' => Acost g' (2 * L) (nstripes (2 * L)) end.

  Lemma Acost_mono g : forall g' L ns, g' <= g -> Acost g' L ns <= Acost g L ns.
  Proof.
    induction g as [|g IH]; intros g' L ns H.
    - assert (g' = 0) by lia. subst. lia.
    - destruct g' as [|g']; cbn [Acost]; [lia|]. specialize (IH g' (2 * L) (nstripes (2 * L)) ltac:(lia)). lia.
  Qed.

  (* a resize started now on the current table: CAS, LoadPointer, sumSize, the statistics, two steps per bucket,
     the publication, resizeMu, the flag, the broadcast *)
  Definition Rz (s : xstate) : nat := NS s (g_cur s) + 2 * LEN s (g_cur s) + 12.

  (* the attempts of doCompute from PW_Table in the current state *)
  Definition Bs (s : xstate) : nat :=
    Acost (gof (SZ s (g_cur s)) (EC s (g_cur s)) (LEN s (g_cur s))) (LEN s (g_cur s)) (NS s (g_cur s)).

  Definition attk (kt : @cont K V) (n : nat) : nat := if kdone kt then 0 else 5 + n.

  Definition stale (s : xstate) (tab : nat) : nat := if Nat.eqb (g_cur s) tab then 0 else 6.

  (* the bound: how many more steps of its own thread t needs, at most, to finish the call it is in *)
  Fixpoint mu (s : xstate) (p : pc) : nat :=
    match p with
    | PStart => 1
    | PIdle | PRet _ => 0
    | PL_Table _ lc | PL_Meta _ lc _ _ _ | PL_Ent _ lc _ _ _ _ | PL_Next _ lc _ _ _ =>
        rd_bound hash idx tag nslots probe nstripes s p + match lc with LPlain => 0 | LFast _ => 6 + Bs s end
    | PS_Table | PS_Sum _ _ _ => rd_bound hash idx tag nslots probe nstripes s p
    | PW_Table _ => 5 + Bs s
    | PW_Lock _ tab => 4 + stale s tab + Bs s
    | PW_ChkRes _ tab => 3 + stale s tab + Bs s
    | PW_ChkTab _ tab => 2 + stale s tab + Bs s
    | PW_Sum _ tab i acc =>
        (NS s tab - i) + 6 + Rz s
        + match (if Nat.eqb (g_cur s) tab && Z.eqb (acc + rest_sz (tab_at s tab) i) (Z.of_nat (EC s (g_cur s))) then 0 else 1)
                + (EC s (g_cur s) - LEN s (g_cur s)) with
          | 0 => 0
          | S g' => 5 + Acost g' (2 * LEN s (g_cur s)) (nstripes (2 * LEN s (g_cur s)))
          end
    | PW_D1 _ tab _ _ => 6 + NS s tab + Rz s
    | PW_D2 _ tab _ _ => 5 + NS s tab + Rz s
    | PW_U1 _ _ _ _ _ => 2
    | PW_I1 _ _ _ _ => 4
    | PW_I2 _ _ _ _ => 3
    | PW_N1 _ _ _ => 3
    | PW_Unlock _ _ a => 1 + mu s a
    | PW_Add _ _ _ a => 1 + mu s a
    | PR_FastSum known kt i _ => 1 + (NS s known - i) + Rz s + attk kt (Bs s)
    | PR_CAS hn kt =>
        Rz s + (if hgrow hn
                then attk kt (Acost (EC s (g_cur s) - 2 * LEN s (g_cur s)) (2 * LEN s (g_cur s)) (nstripes (2 * LEN s (g_cur s))))
                else attk kt (Bs s))
    | PR_Table hn kt =>
        Rz s - 1 + (if hgrow hn
                    then attk kt (Acost (EC s (g_cur s) - 2 * LEN s (g_cur s)) (2 * LEN s (g_cur s)) (nstripes (2 * LEN s (g_cur s))))
                    else attk kt (Bs s))
    | PR_ShSum kt tab i _ => 1 + (NS s tab - i) + 2 * LEN s tab + 8 + attk kt (Bs s)
    | PR_Stat hn kt tab =>
        2 * LEN s tab + 7 + (if hgrow hn
                             then attk kt (Acost (EC s tab - 2 * LEN s tab) (2 * LEN s tab) (nstripes (2 * LEN s tab)))
                             else attk kt (Bs s))
    | PR_CpLock _ kt tab new i =>
        2 * (LEN s tab - i) + 6
        + attk kt (Acost (gof (SZ s new + Z.of_nat (rest_ent (tab_at s tab) i)) (EC s new + rest_ent (tab_at s tab) i) (LEN s new))
                         (LEN s new) (NS s new))
    | PR_CpUnlock _ kt tab new i =>
        2 * (LEN s tab - i) + 5
        + attk kt (Acost (gof (SZ s new + Z.of_nat (rest_ent (tab_at s tab) (S i))) (EC s new + rest_ent (tab_at s tab) (S i)) (LEN s new))
                         (LEN s new) (NS s new))
    | PR_Publish kt new => 5 + attk kt (Acost (gof (SZ s new) (EC s new) (LEN s new)) (LEN s new) (NS s new))
    | PR_FinLock kt => 4 + attk kt (Bs s)
    | PR_FinStore kt => 3 + attk kt (Bs s)
    | PR_FinBcast kt => 2 + attk kt (Bs s)
    | PR_FinUnlock kt => 1 + attk kt (Bs s)
    | PT_Lock hn kt | PT_Relock hn kt => 3 + match hn with Some HClear => Rz s + attk kt (Bs s) | _ => attk kt (Bs s) end
    | PT_Load hn kt => 2 + match hn with Some HClear => Rz s + attk kt (Bs s) | _ => attk kt (Bs s) end
    | PT_Unlock hn kt => 1 + match hn with Some HClear => Rz s + attk kt (Bs s) | _ => attk kt (Bs s) end
    | PT_Wait _ _ | PT_Waiting _ _ => 0
    | PG_Table => 2 + 2 * LEN s (g_cur s)
    | PG_Lock tab i => 2 * (LEN s tab - i)
    | PG_Unlock tab i _ => 2 * (LEN s tab - i) - 1
    | PC_Table => 1 + Rz s
    end.


  (* ---------------- what the bound looks at: a view of the state ---------------- *)

  Definition slotv (sl : slot) : option N * bool := (s_tag sl, has_ent sl).
  Definition vt (tb : xtable) : N * list Z * list (list (option N * bool)) :=
    (x_seed tb, x_size tb, map (map slotv) (x_chains tb)).
  Definition view (s : xstate) : nat * list (N * list Z * list (list (option N * bool))) := (g_cur s, map vt (g_tabs s)).

  Lemma slotv_chain (c c' : list slot) : map slotv c' = map slotv c ->
    map (@s_tag K V) c' = map (@s_tag K V) c /\ length c' = length c /\ nentc c' = nentc c.
  Proof.
    revert c'. induction c as [|sl r IH]; intros [|sl' r'] H; try discriminate H; [repeat split|].
    cbn [map] in H. unfold slotv at 1 3 in H. injection H as T1 T2 H2. destruct (IH r' H2) as [A [B C]].
    split; [cbn [map]; rewrite T1, A; reflexivity|]. split; [cbn [length]; rewrite B; reflexivity|].
    unfold nentc in *. cbn [filter]. rewrite T2. destruct (has_ent sl); cbn [length]; rewrite C; reflexivity.
  Qed.

  Lemma vt_facts (tb tb' : xtable) : vt tb' = vt tb ->
    x_seed tb' = x_seed tb /\ x_size tb' = x_size tb /\ x_len tb' = x_len tb
    /\ (forall b, map slotv (chain_of tb' b) = map slotv (chain_of tb b))
    /\ (forall i, rest_ent tb' i = rest_ent tb i).
  Proof.
    unfold vt. intros H. injection H as H1 H2 H3.
    split; [exact H1|]. split; [exact H2|].
    split; [unfold x_len; rewrite <- (map_length (map slotv) (x_chains tb)), <- H3, map_length; reflexivity|].
    split.
    - intros b. unfold chain_of.
      rewrite <- (map_nth (map slotv) (x_chains tb') [] b), <- (map_nth (map slotv) (x_chains tb) [] b), H3. reflexivity.
    - intros i. unfold rest_ent. revert i H3. generalize (x_chains tb) as l. generalize (x_chains tb') as l'.
      induction l' as [|c' r' IH]; intros [|c r] i H; try discriminate H; [reflexivity|].
      cbn [map] in H. injection H as Hc Hr. destruct i as [|i]; cbn [skipn map lsum].
      + destruct (slotv_chain c c' Hc) as [_ [_ E]]. rewrite E. specialize (IH r 0 Hr). cbn [skipn] in IH. rewrite IH. reflexivity.
      + apply IH. exact Hr.
  Qed.

  Lemma vt_at s s' j : view s' = view s -> vt (tab_at s' j) = vt (tab_at s j).
  Proof.
    unfold view. intros H. injection H as _ H. unfold XMachine.tab_at.
    rewrite <- (map_nth vt (g_tabs s') _ j), H, (map_nth vt). reflexivity.
  Qed.

  Lemma view_acc s s' : view s' = view s ->
    g_cur s' = g_cur s
    /\ (forall j, LEN s' j = LEN s j /\ NS s' j = NS s j /\ EC s' j = EC s j /\ SZ s' j = SZ s j
                  /\ (forall i, rest_ent (tab_at s' j) i = rest_ent (tab_at s j) i)
                  /\ (forall i, rest_sz (tab_at s' j) i = rest_sz (tab_at s j) i)).
  Proof.
    intros H. split; [unfold view in H; injection H as H _; exact H|].
    intros j. destruct (vt_facts _ _ (vt_at s s' j H)) as [A [B [C [D E]]]].
    unfold LEN, NS, EC, SZ, nstr, szsum, ecount, rest_sz. rewrite B, C. repeat split; auto.
  Qed.

  Lemma tags_bucket (c c' : list slot) bi : map slotv c' = map slotv c ->
    tags_of (bucket_slots nslots c' bi) = tags_of (bucket_slots nslots c bi).
  Proof.
    intros H. destruct (slotv_chain c c' H) as [A _]. unfold tags_of, bucket_slots.
    rewrite <- !firstn_map, <- !skipn_map, A. reflexivity.
  Qed.

  Lemma wsum_view (c c' : list slot) tg : map slotv c' = map slotv c -> forall n j, wsum nslots probe c' tg j n = wsum nslots probe c tg j n.
  Proof.
    intros H. induction n as [|n IH]; intros j; cbn [wsum]; [reflexivity|].
    rewrite IH. unfold plen. rewrite (tags_bucket c c' j H). reflexivity.
  Qed.

  Lemma rd_bound_view s s' p : view s' = view s ->
    rd_bound hash idx tag nslots probe nstripes s' p = rd_bound hash idx tag nslots probe nstripes s p.
  Proof.
    intros H. destruct (view_acc s s' H) as [Hc Hj].
    assert (Hch : forall tab h, map slotv (rd_chain idx nslots nstripes s' tab h) = map slotv (rd_chain idx nslots nstripes s tab h)).
    { intros tab h. unfold rd_chain. destruct (vt_facts _ _ (vt_at s s' tab H)) as [_ [_ [C [D _]]]]. rewrite C. apply D. }
    assert (Hw : forall tab h tg j, wrest nslots probe (rd_chain idx nslots nstripes s' tab h) tg j = wrest nslots probe (rd_chain idx nslots nstripes s tab h) tg j).
    { intros tab h tg j. unfold wrest. rewrite (wsum_view _ _ tg (Hch tab h)).
      destruct (slotv_chain _ _ (Hch tab h)) as [_ [L _]]. unfold nbuckets. rewrite L. reflexivity. }
    assert (Hp : forall tab h tg j, plen nslots probe (rd_chain idx nslots nstripes s' tab h) tg j = plen nslots probe (rd_chain idx nslots nstripes s tab h) tg j).
    { intros tab h tg j. unfold plen. rewrite (tags_bucket _ _ j (Hch tab h)). reflexivity. }
    destruct p; cbn [rd_bound]; cbv zeta; rewrite ?Hc; try reflexivity.
    - destruct (vt_facts _ _ (vt_at s s' (g_cur s) H)) as [A _]. rewrite A, Hw, Hp. reflexivity.
    - rewrite Hw, Hp. reflexivity.
    - rewrite Hw. reflexivity.
    - rewrite Hw. reflexivity.
    - destruct (Hj (g_cur s)) as [_ [B _]]. unfold NS in B. rewrite B. reflexivity.
    - destruct (Hj tab) as [_ [B _]]. unfold NS in B. rewrite B. reflexivity.
  Qed.

  Lemma Bs_view s s' : view s' = view s -> Bs s' = Bs s.
  Proof.
    intros H. destruct (view_acc s s' H) as [Hc Hj]. unfold Bs. rewrite Hc.
    destruct (Hj (g_cur s)) as [A [B [C [D _]]]]. rewrite A, B, C, D. reflexivity.
  Qed.

  Lemma Rz_view s s' : view s' = view s -> Rz s' = Rz s.
  Proof.
    intros H. destruct (view_acc s s' H) as [Hc Hj]. unfold Rz. rewrite Hc.
    destruct (Hj (g_cur s)) as [A [B _]]. rewrite A, B. reflexivity.
  Qed.

  Lemma mu_view s s' p : view s' = view s -> mu s' p = mu s p.
  Proof.
    intros H. pose proof (view_acc s s' H) as [Hc Hj]. pose proof (Bs_view s s' H) as HB. pose proof (Rz_view s s' H) as HR.
    pose proof (rd_bound_view s s') as Hrd.
    induction p; cbn [mu]; unfold stale; rewrite ?Hrd, ?HB, ?HR, ?Hc by exact H; try reflexivity;
      repeat match goal with
             | |- context [LEN s' ?j] => destruct (Hj j) as [-> _]
             | |- context [NS s' ?j] => destruct (Hj j) as [_ [-> _]]
             | |- context [EC s' ?j] => destruct (Hj j) as [_ [_ [-> _]]]
             | |- context [SZ s' ?j] => destruct (Hj j) as [_ [_ [_ [-> _]]]]
             | |- context [rest_ent (tab_at s' ?j) ?i] => destruct (Hj j) as [_ [_ [_ [_ [E9 _]]]]]; rewrite (E9 i); clear E9
             | |- context [rest_sz (tab_at s' ?j) ?i] => destruct (Hj j) as [_ [_ [_ [_ [_ E9]]]]]; rewrite (E9 i); clear E9
             end; try reflexivity.
    - rewrite IHp. reflexivity.
    - rewrite IHp. reflexivity.
  Qed.

  (* ---------------- updates that do not change the view ---------------- *)

  Lemma map_upd_same {X Y} (h : X -> Y) (l : list X) i f : (forall x, h (f x) = h x) -> map h (upd_nth l i f) = map h l.
  Proof.
    intros Hf. revert i. induction l as [|x r IH]; intros i; [destruct i; reflexivity|].
    destruct i as [|i]; cbn [upd_nth map]; [rewrite Hf; reflexivity | rewrite IH; reflexivity].
  Qed.

  Lemma view_set_tab s i f : (forall tb, vt (f tb) = vt tb) -> view (set_tab s i f) = view s.
  Proof. intros Hf. unfold view, set_tab. cbn [g_cur g_tabs]. rewrite (map_upd_same vt _ i f Hf). reflexivity. Qed.

  Lemma view_set_pc s t p : view (set_pc s t p) = view s.
  Proof. reflexivity. Qed.


  (* the coarser view: lengths only (what the bound looks at after the decision of a doCompute) *)
  Definition sview (s : xstate) : nat * list (nat * nat) := (g_cur s, map (fun tb : xtable => (x_len tb, nstr tb)) (g_tabs s)).

  Lemma sview_acc s s' : sview s' = sview s -> g_cur s' = g_cur s /\ (forall j, LEN s' j = LEN s j /\ NS s' j = NS s j) /\ Rz s' = Rz s.
  Proof.
    unfold sview. intros H. injection H as H1 H2.
    assert (Hj : forall j, LEN s' j = LEN s j /\ NS s' j = NS s j).
    { intros j. unfold LEN, NS, XMachine.tab_at.
      pose proof (map_nth (fun tb : xtable => (x_len tb, nstr tb)) (g_tabs s') (new_xtable nslots nstripes 1 0%N) j) as A.
      pose proof (map_nth (fun tb : xtable => (x_len tb, nstr tb)) (g_tabs s) (new_xtable nslots nstripes 1 0%N) j) as B.
      rewrite H2, B in A. injection A as A1 A2. auto. }
    split; [exact H1|]. split; [exact Hj|]. unfold Rz. rewrite H1. destruct (Hj (g_cur s)) as [-> ->]. reflexivity.
  Qed.

  Lemma sview_set_tab s i f : (forall tb : xtable, x_len (f tb) = x_len tb /\ nstr (f tb) = nstr tb) -> sview (set_tab s i f) = sview s.
  Proof.
    intros Hf. unfold sview, set_tab. cbn [g_cur g_tabs]. f_equal. apply map_upd_same. intros tb. destruct (Hf tb) as [-> ->]. reflexivity.
  Qed.

  Lemma x_len_upd (tb : xtable) b g : x_len (set_chain tb b g) = x_len tb /\ nstr (set_chain tb b g) = nstr tb.
  Proof. split; [apply x_len_set_chain | reflexivity]. Qed.
  Lemma x_len_add (tb : xtable) b d : x_len (add_size tb b d) = x_len tb /\ nstr (add_size tb b d) = nstr tb.
  Proof. split; [reflexivity | unfold nstr, add_size; cbn [x_size]; apply upd_nth_length]. Qed.

  (* a table pushed at the end *)
  Lemma tab_at_push_old' (s : xstate) tb j : j < length (g_tabs s) -> tab_at (push_tab s tb) j = tab_at s j.
  Proof. apply tab_at_push_old. Qed.

  Lemma lsum_repeat0 n : lsum (repeat 0 n) = 0.
  Proof. induction n; cbn; auto. Qed.

  Lemma new_table_facts len seed :
    x_len (new_xtable nslots nstripes len seed : xtable) = len /\ nstr (new_xtable nslots nstripes len seed : xtable) = nstripes len
    /\ ecount (new_xtable nslots nstripes len seed : xtable) = 0 /\ szsum (new_xtable nslots nstripes len seed : xtable) = 0%Z.
  Proof.
    unfold new_xtable, x_len, nstr, ecount, rest_ent, szsum. cbn [x_chains x_size skipn]. rewrite !repeat_length.
    split; [reflexivity|]. split; [reflexivity|]. split.
    - assert (E : nentc (repeat (@empty_slot K V) nslots) = 0) by (unfold nentc; induction nslots; cbn; auto).
      induction len as [|n IH]; [reflexivity|]. cbn [repeat map lsum]. rewrite E, IH. reflexivity.
    - induction (nstripes len) as [|n IH]; [reflexivity|]. cbn [repeat]. unfold sum_z in *. cbn [fold_right]. rewrite IH. reflexivity.
  Qed.

  Lemma rest_ent_step (tb : xtable) i : i < x_len tb -> rest_ent tb i = nentc (chain_of tb i) + rest_ent tb (S i).
  Proof.
    unfold rest_ent, x_len, chain_of. revert i. induction (x_chains tb) as [|c r IH]; intros i Hi; [cbn in Hi; lia|].
    destruct i as [|i]; [reflexivity|]. cbn [skipn nth]. apply IH. cbn in Hi. lia.
  Qed.

  Lemma rest_ent_end (tb : xtable) i : x_len tb <= i -> rest_ent tb i = 0.
  Proof. intros H. unfold rest_ent. rewrite skipn_all2 by exact H. reflexivity. Qed.

  Lemma rest_sz_step (tb : xtable) i : i < nstr tb -> rest_sz tb i = (stripe tb i + rest_sz tb (S i))%Z.
  Proof.
    unfold rest_sz, nstr, stripe. revert i. induction (x_size tb) as [|c r IH]; intros i Hi; [cbn in Hi; lia|].
    destruct i as [|i]; [reflexivity|]. cbn [skipn nth]. apply IH. cbn in Hi. lia.
  Qed.

  Lemma rest_sz_end (tb : xtable) i : nstr tb <= i -> rest_sz tb i = 0%Z /\ stripe tb i = 0%Z.
  Proof. intros H. unfold rest_sz, stripe. rewrite skipn_all2 by exact H. rewrite nth_overflow by exact H. auto. Qed.

  (* ---------------- the copy of one bucket ---------------- *)

  Lemma nentc_place (c : list slot) tg kv : nentc (place_slot nslots c tg kv) = S (nentc c).
  Proof.
    induction c as [|sl r IH]; cbn [place_slot].
    - unfold nentc. cbn [filter has_ent s_ent length]. f_equal.
      induction (nslots - 1) as [|n IHn]; [reflexivity|]. cbn. exact IHn.
    - destruct (s_ent sl) eqn:E.
      + unfold nentc in *. cbn [filter]. assert (Eh : has_ent sl = true) by (unfold has_ent; rewrite E; reflexivity).
        rewrite Eh. cbn [length]. rewrite IH. reflexivity.
      + unfold nentc. cbn [filter]. assert (Eh : has_ent sl = false) by (unfold has_ent; rewrite E; reflexivity).
        rewrite Eh. cbn [has_ent s_ent length]. reflexivity.
  Qed.

  Lemma lsum_upd (l : list (list slot)) b g : b < length l ->
    lsum (map nentc (upd_nth l b g)) + nentc (nth b l []) = lsum (map nentc l) + nentc (g (nth b l [])).
  Proof.
    revert b. induction l as [|c r IH]; intros b Hb; [cbn in Hb; lia|].
    destruct b as [|b]; cbn [upd_nth nth map lsum]; [lia|].
    assert (Hb' : b < length r) by (cbn in Hb; lia). specialize (IH b Hb'). lia.
  Qed.

  Hypothesis Hidx : forall h len, 0 < len -> idx h len < len.

  Lemma copy_chain_count (src : list slot) : forall (acc : xtable * Z), 0 < x_len (fst acc) ->
    let r := fold_left (fun (a : xtable * Z) sl =>
               match s_ent sl with
               | Some (k, v) =>
                   let h := hash k (x_seed (fst a)) in
                   (set_chain (fst a) (idx h (x_len (fst a))) (fun c => place_slot nslots c (tag h) (k, v)), (snd a + 1)%Z)
               | None => a
               end) src acc in
    ecount (fst r) = ecount (fst acc) + nentc src /\ snd r = (snd acc + Z.of_nat (nentc src))%Z
    /\ x_len (fst r) = x_len (fst acc) /\ x_size (fst r) = x_size (fst acc).
  Proof.
    induction src as [|sl r IH]; intros acc Hl; cbn [fold_left].
    - unfold nentc. cbn. split; [lia|]. split; [lia|]. split; reflexivity.
    - destruct (s_ent sl) as [[k v]|] eqn:E.
      + assert (Eh : has_ent sl = true) by (unfold has_ent; rewrite E; reflexivity).
        assert (En : nentc (sl :: r) = S (nentc r)) by (unfold nentc; cbn [filter]; rewrite Eh; reflexivity).
        rewrite En.
        set (tb' := set_chain (fst acc) _ _).
        assert (Hl' : x_len tb' = x_len (fst acc)) by apply x_len_set_chain.
        specialize (IH (tb', (snd acc + 1)%Z)). cbn [fst snd] in IH. rewrite Hl' in IH.
        destruct (IH Hl) as [A1 [A2 [A3 A4]]].
        assert (Ht : ecount tb' = ecount (fst acc) + 1).
        { unfold tb', ecount, rest_ent, set_chain. cbn [x_chains skipn].
          pose proof (lsum_upd (x_chains (fst acc)) (idx (hash k (x_seed (fst acc))) (x_len (fst acc)))
                        (fun c => place_slot nslots c (tag (hash k (x_seed (fst acc)))) (k, v)) (Hidx _ _ Hl)) as Hu.
          cbv beta in Hu. rewrite nentc_place in Hu. eapply Nat.add_cancel_r. etransitivity; [exact Hu|].
          rewrite Nat.add_succ_r, Nat.add_1_r, Nat.add_succ_l. reflexivity. }
        split; [rewrite A1, Ht; lia|]. split; [rewrite A2; lia|]. split; [exact A3|]. rewrite A4. reflexivity.
      + assert (Eh : has_ent sl = false) by (unfold has_ent; rewrite E; reflexivity).
        assert (En : nentc (sl :: r) = nentc r) by (unfold nentc; cbn [filter]; rewrite Eh; reflexivity).
        rewrite En. apply (IH acc Hl).
  Qed.

  Lemma szsum_add_size (tb : xtable) b d : 0 < nstr tb -> szsum (add_size tb b d) = (szsum tb + d)%Z.
  Proof.
    intros H. unfold szsum, add_size. cbn [x_size]. unfold nstr in H.
    assert (Hi : b mod length (x_size tb) < length (x_size tb)) by (apply Nat.mod_upper_bound; lia).
    revert Hi. generalize (b mod length (x_size tb)) as i. induction (x_size tb) as [|x r IH]; intros i Hi; [cbn in Hi; lia|].
    destruct i as [|i]; cbn [upd_nth sum_z fold_right]; [lia|].
    assert (Hi' : i < length r) by (cbn in Hi; lia).
    destruct r as [|y r']; [cbn in Hi'; lia|]. specialize (IH ltac:(cbn; lia) i Hi'). unfold sum_z in IH. lia.
  Qed.

  Lemma acc_set_pc (s : xstate) t q :
    (forall j, NS (set_pc s t q) j = NS s j /\ LEN (set_pc s t q) j = LEN s j /\ EC (set_pc s t q) j = EC s j /\ SZ (set_pc s t q) j = SZ s j
               /\ tab_at (set_pc s t q) j = tab_at s j)
    /\ Rz (set_pc s t q) = Rz s /\ Bs (set_pc s t q) = Bs s /\ g_cur (set_pc s t q) = g_cur s.
  Proof. repeat split. Qed.

  Lemma mu_norm s (p : pc) : mu s (norm p) <= mu s p.
  Proof. destruct p; cbn [norm mu]; lia. Qed.

  Lemma push_acc (s2 s : xstate) (tb : xtable) : g_tabs s2 = g_tabs s ++ [tb] ->
    (forall j, j < length (g_tabs s) -> tab_at s2 j = tab_at s j) /\ tab_at s2 (length (g_tabs s)) = tb.
  Proof.
    intros H. unfold XMachine.tab_at. rewrite H. split.
    - intros j Hj. apply app_nth1. exact Hj.
    - rewrite app_nth2 by lia. rewrite Nat.sub_diag. reflexivity.
  Qed.

  (* ---------------- calm states ---------------- *)

  Hypothesis Hstripes : forall len, 0 < nstripes len.
  Hypothesis Hminlen : 0 < minlen.

  (* no other thread holds a bucket lock, resizeMu or the resizer role, none is in the wait set *)
  Definition calm (s : xstate) (t : nat) : Prop :=
    forall u, u <> t ->
      holds s (g_pc s u) = None /\ holds_mu (g_pc s u) = false /\ resizer (g_pc s u) = false
      /\ forall hn kt, g_pc s u <> PT_Waiting hn kt.

  (* the same without the last clause: other threads may be in the wait set (they hold nothing there) *)
  Definition qcalm (s : xstate) (t : nat) : Prop :=
    forall u, u <> t -> holds s (g_pc s u) = None /\ holds_mu (g_pc s u) = false /\ resizer (g_pc s u) = false.

  Lemma calm_q s t : calm s t -> qcalm s t.
  Proof. intros H u Hne. destruct (H u Hne) as [A [B [C _]]]. auto. Qed.

  Definition TI (s : xstate) : Prop := XInv s /\ XW s /\ RK s.

  Lemma calm_flag s t : TI s -> qcalm s t -> resizer (g_pc s t) = false -> g_resizing s = false.
  Proof.
    intros [HI _] Hc Hr. destruct (g_resizing s) eqn:E; [|reflexivity].
    destruct (xi_rzC _ _ _ _ s HI E) as [r Hrz]. destruct (Nat.eq_dec r t) as [->|Hne]; [congruence|].
    destruct (Hc r Hne) as [_ [_ C]]. congruence.
  Qed.

  Lemma calm_lock s t tab b u : TI s -> qcalm s t -> tab < length (g_tabs s) -> lock_of (tab_at s tab) b = Some u -> u = t.
  Proof.
    intros [HI _] Hc Htab Hl. destruct (Nat.eq_dec u t) as [E|Hne]; [exact E|].
    pose proof (xi_lockB _ _ _ _ s HI tab b u Htab Hl) as Hh. destruct (Hc u Hne) as [A _]. congruence.
  Qed.

  Lemma calm_mu s t u : TI s -> qcalm s t -> g_rmu s = Some u -> u = t.
  Proof.
    intros [HI _] Hc Hm. destruct (Nat.eq_dec u t) as [E|Hne]; [exact E|].
    pose proof (xi_muB _ _ _ _ s HI u Hm) as Hh. destruct (Hc u Hne) as [_ [A _]]. congruence.
  Qed.

  (* a thread that is inside a call and calm is never blocked *)
  Lemma calm_enabled s t : TI s -> qcalm s t -> g_pc s t <> PIdle -> step_pc s t (g_pc s t) <> None.
  Proof.
    intros HT Hc Hni E. pose proof HT as [HI [HW HK]].
    destruct (blocked_why eqd hash idx tag nslots seeds grow_needed shrink_policy probe nstripes minlen grow_only s t _ E)
      as [[tab [b [u [W Hl]]]]|[[W [u Hm]]|[[hn [kt Ew]]|[Ei|[[r Er]|[k [lc [tab [h [bi Ee]]]]]]]]]].
    - assert (Htab : tab < length (g_tabs s)).
      { apply (waits_lock_valid hash idx tag nslots seeds grow_needed shrink_policy nstripes s (g_pc s t) tab b (xi_valid _ _ _ _ s HI t) W). }
      pose proof (calm_lock s t tab b u HT Hc Htab Hl) as ->.
      pose proof (xi_lockB _ _ _ _ s HI tab b t Htab Hl) as Hh.
      destruct (g_pc s t); cbn in W, Hh; discriminate.
    - pose proof (calm_mu s t u HT Hc Hm) as ->. pose proof (xi_muB _ _ _ _ s HI t Hm) as Hh.
      destruct (g_pc s t); cbn in W, Hh; discriminate.
    - destruct (xw_waiting s HW t hn kt Ew) as [Hr|[u [kt' Hu]]].
      + rewrite (calm_flag s t HT Hc) in Hr; [discriminate | rewrite Ew; reflexivity].
      + destruct (Nat.eq_dec u t) as [->|Hne]; [congruence|]. destruct (Hc u Hne) as [_ [A _]]. rewrite Hu in A. discriminate.
    - contradiction.
    - eapply (xw_ret s HW). exact Er.
    - pose proof (xi_valid _ _ _ _ s HI t) as Hv. rewrite Ee in Hv. cbn in Hv. destruct Hv as [_ Hv]. apply Hv. reflexivity.
  Qed.

  (* ---------------- every solo step brings the end nearer ---------------- *)

  Definition ghyp : Prop := forall len sum, grow_needed len sum = true -> (Z.of_nat len < sum)%Z.
  Hypothesis Hgrow : ghyp.

  Ltac view_solve :=
    first [ reflexivity
          | apply view_set_tab; intros; reflexivity ].

  Lemma Bs_ge s : 2 * NS s (g_cur s) + 2 * LEN s (g_cur s) + 30 <= Bs s.
  Proof. unfold Bs. destruct (gof _ _ _); cbn [Acost]; lia. Qed.

  Ltac kt_cases :=
    unfold hk2 in *; cbn [hgrow kdone] in *;
    repeat match goal with
           | H : false = false -> kdone ?kt = true |- _ => specialize (H eq_refl)
           | H : kdone ?kt = true |- _ => is_var kt; destruct kt; [discriminate H|]; clear H
           end;
    repeat match goal with
           | |- context [kdone ?kt] => is_var kt; destruct kt
           | |- context [run_cont ?kt] => is_var kt; destruct kt
           | |- context [hgrow ?hn] => is_var hn; destruct hn
           | |- context [match ?hn with Some _ => _ | None => _ end] => is_var hn; destruct hn as [[]|]
           end;
    cbn [kdone run_cont norm mu hgrow]; unfold attk; cbn [kdone].

  Ltac drop_pc :=
    repeat match goal with
           | |- context [NS (set_pc ?S0 ?t ?q) ?j] => change (NS (set_pc S0 t q) j) with (NS S0 j)
           | |- context [LEN (set_pc ?S0 ?t ?q) ?j] => change (LEN (set_pc S0 t q) j) with (LEN S0 j)
           | |- context [EC (set_pc ?S0 ?t ?q) ?j] => change (EC (set_pc S0 t q) j) with (EC S0 j)
           | |- context [SZ (set_pc ?S0 ?t ?q) ?j] => change (SZ (set_pc S0 t q) j) with (SZ S0 j)
           | |- context [tab_at (set_pc ?S0 ?t ?q) ?j] => change (tab_at (set_pc S0 t q) j) with (tab_at S0 j)
           | |- context [Rz (set_pc ?S0 ?t ?q)] => change (Rz (set_pc S0 t q)) with (Rz S0)
           | |- context [Bs (set_pc ?S0 ?t ?q)] => change (Bs (set_pc S0 t q)) with (Bs S0)
           | |- context [g_cur (set_pc ?S0 ?t ?q)] => change (g_cur (set_pc S0 t q)) with (g_cur S0)
           end.

  Lemma mu_step s t p s' ls : TI s -> qcalm s t -> g_pc s t = p -> step_pc s t p = Some (s', ls) ->
    mu s' (g_pc s' t) < mu s p.
  Proof.
    intros HT Hc Hp Hs. pose proof HT as [HI [HW HK]].
    pose proof (xi_valid _ _ _ _ s HI t) as Hv. rewrite Hp in Hv.
    pose proof (HK t) as Hrk. rewrite Hp in Hrk.
    assert (Hrz : resizer p = false -> g_resizing s = false) by (intros H; apply (calm_flag s t HT Hc); rewrite Hp; exact H).
    pose proof (xi_wf _ _ _ _ s HI) as Hwf.
    pose proof (Bs_ge s) as HBge.
    destruct p; step_cases Hs; cbn [valid rk_ok] in Hv, Hrk;
      try change (set_pc s t PIdle) with (set_pc s t (norm (@PIdle K V)));
      cbn [g_pc set_pc]; (destruct (Nat.eq_dec t t) as [_|Hx]; [|exfalso; apply Hx; reflexivity]);
      try (pose proof (Hrz eq_refl) as Hz; try congruence);
      try (exfalso; pose proof (xw_wait s HW t _ _ Hp); congruence).
    all: try (rewrite (mu_view s) by view_solve).
    all: cbn [mu norm]; unfold attk, stale; rewrite ?Nat.eqb_refl.
    all: try lia.
    (* the read path: the bound of X_c16 *)
    all: try (cbn [rd_bound]; unfold rd_chain; cbv zeta; unfold LEN, NS in *;
              try match goal with H : probe _ _ = [] |- _ => unfold plen; rewrite H end;
              try match goal with H : probe _ _ = _ :: _ |- _ => unfold plen; rewrite H end;
              try match goal with H : Nat.ltb _ _ = true |- context [wrest _ _ _ _ (S ?bi)] => apply Nat.ltb_lt in H; rewrite (wrest_step nslots probe _ _ (S bi) H) end;
              try match goal with H : Nat.ltb _ _ = true |- _ => apply Nat.ltb_lt in H end;
              unfold wrest; cbn [length]; try (destruct lc); lia).
    (* plain arithmetic on one state *)
    all: try (try match goal with H : negb (Nat.eqb _ _) = false |- _ => apply Bool.negb_false_iff in H; apply Nat.eqb_eq in H; subst end;
              try match goal with H : negb (Nat.eqb _ _) = true |- _ => apply Bool.negb_true_iff in H; rewrite ?H end;
              rewrite ?Nat.eqb_refl;
              try match goal with H : Nat.ltb _ _ = true |- _ => apply Nat.ltb_lt in H end;
              try match goal with H : Nat.ltb _ _ = false |- _ => apply Nat.ltb_ge in H end;
              kt_cases; unfold Rz, LEN, NS in *; lia).
    - (* PW_ChkTab: the chain is full, sumSize() begins *)
      apply Bool.negb_false_iff in Heqb. apply Nat.eqb_eq in Heqb. subst tab. rewrite Nat.eqb_refl. cbn [andb].
      unfold Bs, gof, Rz. change (rest_sz (tab_at s (g_cur s)) 0) with (SZ s (g_cur s)). rewrite Z.add_0_l.
      destruct ((if (SZ s (g_cur s) =? Z.of_nat (EC s (g_cur s)))%Z then 0 else 1) + (EC s (g_cur s) - LEN s (g_cur s))) as [|g']; cbn [Acost]; lia.
    - (* PW_D1 *)
      drop_pc.
      match goal with |- context [set_tab s ?tab ?f] =>
        assert (Hsv : sview (set_tab s tab f) = sview s) by (apply sview_set_tab; intros; apply x_len_upd);
        destruct (sview_acc s (set_tab s tab f) Hsv) as [_ [E2 E3]] end.
      rewrite E3, (proj2 (E2 tab)). lia.
    - (* PW_D2: the bucket is left empty, the shrink check follows *)
      drop_pc. cbn [kdone].
      match goal with |- context [set_tab s ?tab ?f] =>
        assert (Hsv : sview (set_tab s tab f) = sview s) by (apply sview_set_tab; intros; apply x_len_upd);
        destruct (sview_acc s (set_tab s tab f) Hsv) as [_ [E2 E3]] end.
      rewrite E3, (proj2 (E2 tab)). lia.
    - (* PW_Sum: one more stripe *)
      apply Nat.ltb_lt in Heqb.
      assert (Ei : i < nstr (tab_at s tab)) by lia.
      rewrite (rest_sz_step (tab_at s tab) i Ei).
      replace (acc + stripe (tab_at s tab) i + rest_sz (tab_at s tab) (S i))%Z with (acc + (stripe (tab_at s tab) i + rest_sz (tab_at s tab) (S i)))%Z by lia.
      unfold NS. lia.
    - (* PW_Sum: the last stripe, and the table has to grow *)
      cbn [hgrow kdone]. apply Hgrow in Heqb0. apply Nat.ltb_ge in Heqb.
      assert (Ers : (acc + rest_sz (tab_at s tab) i = acc + stripe (tab_at s tab) i)%Z).
      { destruct (Nat.lt_ge_cases i (nstr (tab_at s tab))) as [L|L].
        - rewrite (rest_sz_step _ i L). destruct (rest_sz_end (tab_at s tab) (S i) Heqb) as [-> _]. lia.
        - destruct (rest_sz_end (tab_at s tab) i L) as [-> ->]. lia. }
      rewrite Ers.
      assert (HL : 0 < LEN s (g_cur s)) by (apply (Hwf (g_cur s) (xi_cur _ _ _ _ s HI))).
      set (L := LEN s (g_cur s)) in *. set (E := EC s (g_cur s)) in *.
      assert (Hm : forall g', E - 2 * L <= g' -> Acost (E - 2 * L) (2 * L) (nstripes (2 * L)) <= Acost g' (2 * L) (nstripes (2 * L)))
        by (intros g' Hg; apply Acost_mono; exact Hg).
      destruct (Nat.eqb (g_cur s) tab) eqn:Et; cbn [andb].
      + apply Nat.eqb_eq in Et. subst tab. destruct (Z.eqb _ _) eqn:Ez.
        * apply Z.eqb_eq in Ez. fold (LEN s (g_cur s)) in Heqb0. fold L in Heqb0.
          assert (HLE : L < E) by lia. destruct (0 + (E - L)) as [|g'] eqn:Eg; [lia|].
          specialize (Hm g' ltac:(lia)). unfold NS. lia.
        * cbn [Nat.add]. specialize (Hm (E - L) ltac:(lia)). unfold NS. lia.
      + cbn [Nat.add]. specialize (Hm (E - L) ltac:(lia)). unfold NS. lia.
    - (* PW_Unlock *)
      pose proof (mu_norm s p). lia.
    - (* PW_Add *)
      destruct Hrk as [Hk1 Hk2].
      match goal with |- context [set_tab s ?tab ?f] =>
        assert (Hsv : sview (set_tab s tab f) = sview s) by (apply sview_set_tab; intros; apply x_len_add);
        destruct (sview_acc s (set_tab s tab f) Hsv) as [_ [E2 E3]] end.
      destruct p; try contradiction; cbn [norm mu rk_ok] in *; [lia|]. drop_pc.
      rewrite E3, (proj2 (E2 known)). kt_cases. lia.
    - (* PR_Stat, grow: the new table is allocated *)
      drop_pc. destruct Hv as [Hv _].
      match goal with |- context [SZ ?S2 _] => destruct (push_acc S2 s _ eq_refl) as [Po Pn] end.
      unfold LEN, NS, EC, SZ. rewrite !(Po tab Hv), !Pn.
      destruct (new_table_facts (x_len (tab_at s tab) * 2) (seeds (length (g_tabs s)))) as [N1 [N2 [N3 N4]]].
      rewrite N1, N2, N3, N4. change (rest_ent (tab_at s tab) 0) with (ecount (tab_at s tab)).
      unfold gof. rewrite Z.add_0_l, Nat.add_0_l, Z.eqb_refl, (Nat.mul_comm (x_len (tab_at s tab)) 2).
      cbn [hgrow Nat.add]. kt_cases; lia.
    - exfalso. apply Nat.ltb_ge in Heqb. destruct Hv as [Hv _]. pose proof (Hwf tab Hv) as [W _]. lia.
    - (* PR_Stat, shrink *)
      drop_pc. destruct Hv as [Hv _].
      match goal with |- context [LEN ?S2 _] => destruct (push_acc S2 s _ eq_refl) as [Po Pn] end.
      unfold LEN. rewrite !(Po tab Hv). kt_cases; lia.
    - (* PR_Stat, Clear hint (never reached) *)
      drop_pc. destruct Hv as [Hv _].
      match goal with |- context [LEN ?S2 _] => destruct (push_acc S2 s _ eq_refl) as [Po Pn] end.
      unfold LEN. rewrite !(Po tab Hv). kt_cases; lia.
    - (* PR_CpLock: the bucket is locked and copied *)
      drop_pc. destruct Hv as (Hv0 & Hv1 & Hv2 & Hv3).
      set (s1 := set_tab s tab (fun tb : xtable => set_lock tb i (Some t))) in *.
      assert (Hl1 : length (g_tabs s1) = length (g_tabs s)) by (unfold s1, set_tab; cbn [g_tabs]; apply upd_nth_length).
      assert (T3 : tab_at s1 new = tab_at s new).
      { unfold s1. rewrite (tab_at_set_tab nslots nstripes s tab _ new Hv0). destruct (Nat.eq_dec new tab); [contradiction | reflexivity]. }
      assert (T4 : tab_at s1 tab = set_lock (tab_at s tab) i (Some t)).
      { unfold s1. rewrite (tab_at_set_tab nslots nstripes s tab _ tab Hv0). destruct (Nat.eq_dec tab tab) as [_|Hx]; [reflexivity | exfalso; apply Hx; reflexivity]. }
      set (s3 := set_tab s1 new (fun _ : xtable => add_size x i z)).
      assert (T1 : tab_at s3 new = add_size x i z).
      { unfold s3. rewrite (tab_at_set_tab nslots nstripes s1 new _ new) by lia. destruct (Nat.eq_dec new new) as [_|Hx]; [reflexivity | exfalso; apply Hx; reflexivity]. }
      assert (T2 : tab_at s3 tab = set_lock (tab_at s tab) i (Some t)).
      { unfold s3. rewrite (tab_at_set_tab nslots nstripes s1 new _ tab) by lia. destruct (Nat.eq_dec tab new) as [Hx|_]; [exfalso; apply Hv3; symmetry; exact Hx | exact T4]. }
      destruct (Hwf new Hv1) as [W1 [W2 W3]].
      rewrite T3 in Heqp. unfold copy_chain in Heqp.
      pose proof (copy_chain_count (chain_of (tab_at s tab) i) (tab_at s new, 0%Z) W1) as Hcc. cbv zeta in Hcc.
      rewrite Heqp in Hcc. cbn [fst snd] in Hcc. destruct Hcc as [C1 [C2 [C3 C4]]].
      unfold LEN, NS, EC, SZ. rewrite T1, T2.
      change (x_len (set_lock (tab_at s tab) i (Some t))) with (x_len (tab_at s tab)).
      change (rest_ent (set_lock (tab_at s tab) i (Some t)) (S i)) with (rest_ent (tab_at s tab) (S i)).
      change (ecount (add_size x i z)) with (ecount x). change (x_len (add_size x i z)) with (x_len x).
      rewrite (proj2 (x_len_add x i z)), (szsum_add_size x i z) by (unfold nstr; rewrite C4; exact W3).
      rewrite (rest_ent_step (tab_at s tab) i Hv2), C1, C2, C3.
      assert (En : nstr x = nstr (tab_at s new)) by (unfold nstr; rewrite C4; reflexivity). rewrite En.
      replace (szsum x + (0 + Z.of_nat (nentc (chain_of (tab_at s tab) i))) + Z.of_nat (rest_ent (tab_at s tab) (S i)))%Z
        with (szsum (tab_at s new) + Z.of_nat (nentc (chain_of (tab_at s tab) i) + rest_ent (tab_at s tab) (S i)))%Z
        by (unfold szsum; rewrite C4; lia).
      replace (ecount (tab_at s new) + nentc (chain_of (tab_at s tab) i) + rest_ent (tab_at s tab) (S i))
        with (ecount (tab_at s new) + (nentc (chain_of (tab_at s tab) i) + rest_ent (tab_at s tab) (S i))) by lia.
      lia.
    - (* PR_CpUnlock: the last bucket *)
      apply Nat.ltb_ge in Heqb. rewrite (rest_ent_end (tab_at s tab) (S i) Heqb). cbn [Z.of_nat]. rewrite Z.add_0_r, Nat.add_0_r.
      unfold LEN in *. destruct (kdone kt); lia.
    - (* PR_Publish: the new table becomes the current one *)
      change (Bs (set_pc (set_flags s new (g_resizing s) (g_rmu s)) t (PR_FinLock kt)))
        with (Acost (gof (SZ s new) (EC s new) (LEN s new)) (LEN s new) (NS s new)).
      destruct (kdone kt); lia.
  Qed.


  (* ---------------- the invariants and calmness along a solo run ---------------- *)

  Lemma start_rk (o : @xop K V) : rk_ok (start_pc o).
  Proof. destruct o; cbn; auto. destruct lie; exact I. Qed.

  Lemma RK_xstep s t s' ls : RK s -> xstep s t = Some (s', ls) -> RK s'.
  Proof.
    intros HK Hs. unfold XMachine.xstep in Hs.
    destruct (g_pc s t) eqn:Hp; try (eapply RK_step_pc; [exact HK | exact Hp | exact Hs]).
    destruct (g_todo s t) as [|o rest]; [discriminate|].
    match type of Hs with match step_pc ?S1 t ?q with _ => _ end = _ => set (s1 := S1) in * end.
    assert (HK1 : RK s1).
    { intros u. unfold s1. cbn [g_pc]. destruct (Nat.eq_dec u t); [apply start_rk | apply HK]. }
    destruct (step_pc s1 t (start_pc o)) as [[s2 ls0]|] eqn:E.
    - inversion Hs; subst. eapply RK_step_pc; [exact HK1 | | exact E]. unfold s1. cbn [g_pc]. destruct (Nat.eq_dec t t); congruence.
    - inversion Hs; subst. exact HK1.
  Qed.

  Lemma TI_xstep s t s' ls : TI s -> xstep s t = Some (s', ls) -> TI s'.
  Proof.
    intros [HI [HW HK]] E. split; [|split].
    - eapply (xstep_inv eqd hash idx tag nslots seeds grow_needed shrink_policy probe nstripes minlen grow_only Hidx Hstripes Hminlen); eassumption.
    - eapply XW_xstep; try eassumption.
    - eapply RK_xstep; eassumption.
  Qed.

  Lemma TI_xrun sched : forall s, TI s -> TI (fst (xrun s sched)).
  Proof.
    induction sched as [|t rest IH]; intros s H; cbn [XMachine.xrun]; [exact H|].
    destruct (xstep s t) as [[s' ls]|] eqn:E; [|apply IH; exact H].
    specialize (IH s' (TI_xstep s t s' ls H E)). destruct (XMachine.xrun _ _ _ _ _ _ _ _ _ _ _ _ s' rest). exact IH.
  Qed.

  Lemma TI_init len0 todo : 0 < len0 -> TI (xinit nslots seeds nstripes len0 todo).
  Proof.
    intros Hl. split; [apply (xinit_inv hash idx nslots seeds nstripes minlen Hstripes Hminlen); exact Hl|].
    split; [apply XW_init | intros t; exact I].
  Qed.

  Lemma holds_none_indep s s' (p : pc) : holds s p = None -> holds s' p = None.
  Proof. destruct p; cbn; intros H; try discriminate H; reflexivity. Qed.

  (* a step of t in a calm state leaves every other thread exactly where it is, and the state calm *)
  Lemma calm_step s t p s' ls : TI s -> calm s t -> g_pc s t = p -> step_pc s t p = Some (s', ls) ->
    (forall u, u <> t -> g_pc s' u = g_pc s u) /\ calm s' t /\ g_todo s' = g_todo s.
  Proof.
    intros [HI [HW HK]] Hc Hp Hs.
    assert (Hio : X_c13.inner_ok p) by (rewrite <- Hp; apply (xw_inner s HW)).
    destruct (step_effect eqd hash idx tag nslots seeds grow_needed shrink_policy probe nstripes minlen grow_only s t p s' ls Hio Hs) as [Hoth _].
    assert (Ho : forall u, u <> t -> g_pc s' u = g_pc s u).
    { intros u Hne. rewrite (Hoth u Hne). destruct (is_bcast p); [|reflexivity].
      destruct (Hc u Hne) as [_ [_ [_ Hnw]]]. destruct (g_pc s u); try reflexivity. exfalso. eapply Hnw. reflexivity. }
    split; [exact Ho|]. split.
    - intros u Hne. rewrite (Ho u Hne). destruct (Hc u Hne) as [A [B [C D]]].
      split; [apply (holds_none_indep s s'); exact A | auto].
    - destruct p; step_cases Hs; reflexivity.
  Qed.


  Definition pcq (p p' : pc) : Prop := p' = p \/ p' = wake p.

  Lemma pcq_trans (a b c : pc) : pcq a b -> pcq b c -> pcq a c.
  Proof. unfold pcq. intros [->| ->] [->| ->]; auto. right. destruct a; reflexivity. Qed.

  Lemma quiet3_wake (s : xstate) (p : pc) : holds s p = None /\ holds_mu p = false /\ resizer p = false ->
    holds s (wake p) = None /\ holds_mu (wake p) = false /\ resizer (wake p) = false.
  Proof. destruct p; cbn; auto. Qed.

  (* the same when other threads may be waiting: the broadcast of t wakes them, nothing else happens to them *)
  Lemma qcalm_step s t p s' ls : TI s -> qcalm s t -> g_pc s t = p -> step_pc s t p = Some (s', ls) ->
    (forall u, u <> t -> pcq (g_pc s u) (g_pc s' u)) /\ qcalm s' t /\ g_todo s' = g_todo s.
  Proof.
    intros [HI [HW HK]] Hc Hp Hs.
    assert (Hio : X_c13.inner_ok p) by (rewrite <- Hp; apply (xw_inner s HW)).
    destruct (step_effect eqd hash idx tag nslots seeds grow_needed shrink_policy probe nstripes minlen grow_only s t p s' ls Hio Hs) as [Hoth _].
    assert (Ho : forall u, u <> t -> pcq (g_pc s u) (g_pc s' u)).
    { intros u Hne. rewrite (Hoth u Hne). destruct (is_bcast p); [right | left]; reflexivity. }
    split; [exact Ho|]. split.
    - intros u Hne. destruct (Hc u Hne) as [A [B C]].
      assert (Q : holds s' (g_pc s u) = None /\ holds_mu (g_pc s u) = false /\ resizer (g_pc s u) = false)
        by (split; [apply (holds_none_indep s s'); exact A | auto]).
      destruct (Ho u Hne) as [E|E]; rewrite E; [exact Q | apply quiet3_wake; exact Q].
    - destruct p; step_cases Hs; reflexivity.
  Qed.

  (* ---------------- a call that ends emits its result ---------------- *)

  Lemma some_pair_t {A B} (g : A * B) a b : Some g = Some (a, b) -> a = fst g /\ b = snd g.
  Proof. intros H. inversion H. auto. Qed.

  Lemma goto_ret (s0 : xstate) t (q : pc) (l0 : list xlabel) :
    ((forall r, q <> PRet r) -> norm q <> PIdle) -> q <> PStart ->
    g_pc (fst (goto s0 t q l0)) t <> PStart
    /\ (g_pc (fst (goto s0 t q l0)) t = PIdle -> exists r, In (XRes t r) (snd (goto s0 t q l0))).
  Proof.
    intros Hq Hs. rewrite goto_state_t, (goto_labels s0 t q l0). cbn [set_pc g_pc].
    destruct (Nat.eq_dec t t) as [_|Hx]; [|exfalso; apply Hx; reflexivity].
    split; [destruct q; cbn [norm]; try discriminate; exfalso; apply Hs; reflexivity|].
    intros E. destruct q; cbn [norm] in E; try discriminate E.
    - exfalso. apply Hq; [intros r0; discriminate | reflexivity].
    - exists r. apply in_or_app. right. left. reflexivity.
  Qed.

  Lemma step_ret s t p s' ls : rk_ok p -> step_pc s t p = Some (s', ls) ->
    g_pc s' t <> PStart /\ (g_pc s' t = PIdle -> p = PStart \/ exists r, In (XRes t r) ls).
  Proof.
    intros Hrk Hs.
    destruct p; cbn [XMachine.step_pc] in Hs; cbv zeta in Hs;
      repeat match type of Hs with context [match ?x with _ => _ end] => destruct x eqn:? end;
      try discriminate Hs; apply some_pair_t in Hs; destruct Hs as [-> ->]; cbn [rk_ok] in Hrk.
    all: try match goal with |- context [goto ?S0 ?T ?q ?l0] =>
           destruct (goto_ret S0 T q l0) as [G1 G2];
           [ | | split; [exact G1 | intros E; right; apply G2; exact E]] end.
    all: try (intros Hr; cbn [norm]; discriminate).
    all: try discriminate.
    all: try (intros Hr; exfalso; eapply Hr; reflexivity).
    all: try (intros Hr; destruct lc; cbn [norm]; try discriminate; exfalso; eapply Hr; reflexivity).
    all: try match goal with |- context [run_cont ?kt] => destruct kt; cbn [run_cont norm]; try discriminate; intros Hr; try discriminate; exfalso; eapply Hr; reflexivity end.
    all: try match goal with |- context [run_cont ?kt] => destruct kt; cbn [run_cont]; discriminate end.
    all: try (destruct lc; discriminate).
    all: try (match type of Hrk with _ /\ _ => destruct Hrk as [Hk Hk'] end; destruct p; try contradiction; cbn [norm]; try discriminate; intros Hr; exfalso; eapply Hr; reflexivity).
    all: try (match type of Hrk with _ /\ _ => destruct Hrk as [Hk Hk'] end; destruct p; try contradiction; discriminate).
    - cbn [fst snd set_pc g_pc]. destruct (Nat.eq_dec t t) as [_|Hx]; [|exfalso; apply Hx; reflexivity]. split; [discriminate | auto].
  Qed.


  (* ---------------- (T1) solo completion ---------------- *)

  Definition incall (p : pc) : Prop := p <> PIdle /\ p <> PStart.

  Lemma pc_eq_idle (p : pc) : p = PIdle \/ p <> PIdle.
  Proof. destruct p; try (right; discriminate). left. reflexivity. Qed.

  Theorem solo_completes t : forall n s, TI s -> calm s t -> incall (g_pc s t) -> mu s (g_pc s t) <= n ->
    exists m, m <= n /\
      let r := xrun s (repeat t m) in
      g_pc (fst r) t = PIdle /\ (exists res, In (XRes t res) (snd r))
      /\ TI (fst r) /\ calm (fst r) t
      /\ (forall u, u <> t -> g_pc (fst r) u = g_pc s u) /\ g_todo (fst r) = g_todo s.
  Proof.
    induction n as [|n IH]; intros s HT Hc [Hni Hns] Hb.
    - exfalso. destruct (step_pc s t (g_pc s t)) as [[s1 ls1]|] eqn:E.
      + pose proof (mu_step s t _ s1 ls1 HT (calm_q _ _ Hc) eq_refl E). lia.
      + apply (calm_enabled s t HT (calm_q _ _ Hc) Hni E).
    - destruct (step_pc s t (g_pc s t)) as [[s1 ls1]|] eqn:E; [|exfalso; apply (calm_enabled s t HT (calm_q _ _ Hc) Hni E)].
      pose proof (mu_step s t _ s1 ls1 HT (calm_q _ _ Hc) eq_refl E) as Hdec.
      assert (Ex : xstep s t = Some (s1, ls1)) by (rewrite (xstep_of_pc eqd hash idx tag nslots seeds grow_needed shrink_policy probe nstripes minlen grow_only s t Hni); exact E).
      pose proof (TI_xstep s t s1 ls1 HT Ex) as HT1.
      destruct (calm_step s t _ s1 ls1 HT Hc eq_refl E) as [Ho [Hc1 Htd]].
      destruct HT as [HI [HW HK]].
      destruct (step_ret s t _ s1 ls1 (HK t) E) as [R1 R2].
      destruct (pc_eq_idle (g_pc s1 t)) as [Ei|Ei].
      + exists 1. split; [lia|]. cbn [repeat XMachine.xrun]. rewrite Ex. cbn [fst snd]. rewrite app_nil_r.
        split; [exact Ei|]. split; [destruct (R2 Ei) as [F|F]; [contradiction | exact F]|]. auto.
      + destruct (IH s1 HT1 Hc1 (conj Ei R1) ltac:(lia)) as [m [Hm Hfin]]. cbv zeta in Hfin.
        exists (S m). split; [lia|]. cbn [repeat XMachine.xrun]. rewrite Ex.
        destruct (XMachine.xrun _ _ _ _ _ _ _ _ _ _ _ _ s1 (repeat t m)) as [s2 ls2]. cbn [fst snd] in *.
        destruct Hfin as [F1 [[res F2] [F3 [F4 [F5 F6]]]]].
        split; [exact F1|]. split; [exists res; apply in_or_app; right; exact F2|]. split; [exact F3|]. split; [exact F4|].
        split; [intros u Hne; rewrite (F5 u Hne); apply Ho; exact Hne | rewrite F6; exact Htd].
  Qed.


  (* (T1), other threads possibly waiting *)
  Theorem solo_completes_q t : forall n s, TI s -> qcalm s t -> incall (g_pc s t) -> mu s (g_pc s t) <= n ->
    exists m, m <= n /\
      let r := xrun s (repeat t m) in
      g_pc (fst r) t = PIdle /\ (exists res, In (XRes t res) (snd r))
      /\ TI (fst r) /\ qcalm (fst r) t
      /\ (forall u, u <> t -> pcq (g_pc s u) (g_pc (fst r) u)) /\ g_todo (fst r) = g_todo s.
  Proof.
    induction n as [|n IH]; intros s HT Hc [Hni Hns] Hb.
    - exfalso. destruct (step_pc s t (g_pc s t)) as [[s1 ls1]|] eqn:E.
      + pose proof (mu_step s t _ s1 ls1 HT Hc eq_refl E). lia.
      + apply (calm_enabled s t HT Hc Hni E).
    - destruct (step_pc s t (g_pc s t)) as [[s1 ls1]|] eqn:E; [|exfalso; apply (calm_enabled s t HT Hc Hni E)].
      pose proof (mu_step s t _ s1 ls1 HT Hc eq_refl E) as Hdec.
      assert (Ex : xstep s t = Some (s1, ls1)) by (rewrite (xstep_of_pc eqd hash idx tag nslots seeds grow_needed shrink_policy probe nstripes minlen grow_only s t Hni); exact E).
      pose proof (TI_xstep s t s1 ls1 HT Ex) as HT1.
      destruct (qcalm_step s t _ s1 ls1 HT Hc eq_refl E) as [Ho [Hc1 Htd]].
      destruct HT as [HI [HW HK]].
      destruct (step_ret s t _ s1 ls1 (HK t) E) as [R1 R2].
      destruct (pc_eq_idle (g_pc s1 t)) as [Ei|Ei].
      + exists 1. split; [lia|]. cbn [repeat XMachine.xrun]. rewrite Ex. cbn [fst snd]. rewrite app_nil_r.
        split; [exact Ei|]. split; [destruct (R2 Ei) as [F|F]; [contradiction | exact F]|]. auto.
      + destruct (IH s1 HT1 Hc1 (conj Ei R1) ltac:(lia)) as [m [Hm Hfin]]. cbv zeta in Hfin.
        exists (S m). split; [lia|]. cbn [repeat XMachine.xrun]. rewrite Ex.
        destruct (XMachine.xrun _ _ _ _ _ _ _ _ _ _ _ _ s1 (repeat t m)) as [s2 ls2]. cbn [fst snd] in *.
        destruct Hfin as [F1 [[res F2] [F3 [F4 [F5 F6]]]]].
        split; [exact F1|]. split; [exists res; apply in_or_app; right; exact F2|]. split; [exact F3|]. split; [exact F4|].
        split; [intros u Hne; eapply pcq_trans; [apply Ho; exact Hne | apply F5; exact Hne] | rewrite F6; exact Htd].
  Qed.

  (* ---------------- from the call itself: idle, next call o ---------------- *)

  (* the state right after the invocation (the invocation and the first primitive are one scheduling step) *)
  Definition invoked (s : xstate) (t : nat) (o : @xop K V) (rest : list (@xop K V)) : xstate :=
    {| g_tabs := g_tabs s; g_cur := g_cur s; g_resizing := g_resizing s; g_rmu := g_rmu s;
       g_growths := g_growths s; g_shrinks := g_shrinks s;
       g_pc := fun t' => if Nat.eq_dec t' t then start_pc o else g_pc s t';
       g_todo := fun t' => if Nat.eq_dec t' t then rest else g_todo s t' |}.

  Lemma start_incall (o : @xop K V) : incall (start_pc o).
  Proof. destruct o; cbn; split; try discriminate; destruct lie; discriminate. Qed.

  Lemma TI_invoked s t o rest : TI s -> g_pc s t = PIdle -> TI (invoked s t o rest).
  Proof.
    intros [HI [HW HK]] Hp.
    set (S0 := {| g_tabs := g_tabs s; g_cur := g_cur s; g_resizing := g_resizing s; g_rmu := g_rmu s;
                  g_growths := g_growths s; g_shrinks := g_shrinks s; g_pc := g_pc s;
                  g_todo := fun t' => if Nat.eq_dec t' t then rest else g_todo s t' |}).
    change (invoked s t o rest) with (set_pc S0 t (start_pc o)).
    destruct (start_pc_quiet hash idx nslots nstripes o) as [Q1 [Q2 [Q3 Q4]]].
    destruct (start_inner o) as [R1 [R2 [R3 [R4 R5]]]].
    split; [|split].
    - eapply (move_pure hash idx nslots nstripes minlen Hminlen); [exact HI | | apply Q4 | rewrite Hp; apply Q1 | rewrite Hp; exact Q2 | rewrite Hp; exact Q3].
      unfold same_protocol. split; [split; [cbn; lia | intros; apply shape_refl]|]. repeat split; auto.
    - constructor; cbn [set_pc g_pc g_resizing S0].
      + intros t' r. destruct (Nat.eq_dec t' t); [apply R2 | apply (xw_ret s HW)].
      + intros t'. destruct (Nat.eq_dec t' t); [apply R1 | apply (xw_inner s HW)].
      + intros t' hn kt. destruct (Nat.eq_dec t' t); [intros E; exfalso; eapply R3; exact E | apply (xw_wait s HW)].
      + intros t' hn kt. destruct (Nat.eq_dec t' t); [intros E; exfalso; eapply R4; exact E|].
        intros E. destruct (xw_waiting s HW t' hn kt E) as [Hr|[u [kt' Hu]]]; [left; exact Hr|].
        right. exists u, kt'. destruct (Nat.eq_dec u t) as [->|]; [rewrite Hp in Hu; discriminate | exact Hu].
    - intros u. cbn [set_pc g_pc S0]. destruct (Nat.eq_dec u t); [apply start_rk | apply HK].
  Qed.

  Lemma calm_invoked s t o rest : calm s t -> calm (invoked s t o rest) t.
  Proof.
    intros Hc u Hne. cbn [invoked g_pc]. destruct (Nat.eq_dec u t); [contradiction|].
    destruct (Hc u Hne) as [A [B [C D]]]. split; [apply (holds_none_indep s); exact A | auto].
  Qed.

  Lemma invoke_run s t o rest m : g_pc s t = PIdle -> g_todo s t = o :: rest ->
    step_pc (invoked s t o rest) t (start_pc o) <> None ->
    xrun s (repeat t (S m)) = (fst (xrun (invoked s t o rest) (repeat t (S m))),
                               XMachine.XInv t o :: snd (xrun (invoked s t o rest) (repeat t (S m)))).
  Proof.
    intros Hp Ht Hne. cbn [repeat XMachine.xrun].
    assert (E1 : xstep s t = match step_pc (invoked s t o rest) t (start_pc o) with
                             | Some (s2, ls) => Some (s2, XMachine.XInv t o :: ls)
                             | None => Some (invoked s t o rest, [XMachine.XInv t o]) end).
    { unfold XMachine.xstep. rewrite Hp, Ht. reflexivity. }
    assert (Ep : g_pc (invoked s t o rest) t = start_pc o).
    { unfold invoked. cbn [g_pc]. destruct (Nat.eq_dec t t); congruence. }
    assert (E2 : xstep (invoked s t o rest) t = step_pc (invoked s t o rest) t (start_pc o)).
    { unfold XMachine.xstep. rewrite Ep. destruct (start_incall o) as [Hn _]. destruct (start_pc o); try reflexivity. congruence. }
    rewrite E1, E2. destruct (step_pc (invoked s t o rest) t (start_pc o)) as [[s2 ls]|]; [|congruence].
    destruct (XMachine.xrun _ _ _ _ _ _ _ _ _ _ _ _ s2 (repeat t m)) as [s3 ls3]. reflexivity.
  Qed.

  (* the bound as a function of the state: for a thread inside a call, [mu]; for an idle thread, its next call *)
  Definition tbound (s : xstate) (t : nat) : nat :=
    match g_pc s t with
    | PIdle => match g_todo s t with o :: _ => mu s (start_pc o) | [] => 0 end
    | p => mu s p
    end.

  (* (T1) from the call: t is idle, its next call is o, the state is calm for t.  Run alone, t invokes o and returns
     from it within [tbound s t] of its own steps; the other threads are where they were, the state is calm again *)
  Theorem solo_call s t o rest : TI s -> calm s t -> g_pc s t = PIdle -> g_todo s t = o :: rest ->
    exists m, m <= tbound s t /\
      let r := xrun s (repeat t m) in
      g_pc (fst r) t = PIdle /\ g_todo (fst r) t = rest
      /\ In (XMachine.XInv t o) (snd r) /\ (exists res, In (XRes t res) (snd r))
      /\ TI (fst r) /\ calm (fst r) t
      /\ (forall u, u <> t -> g_pc (fst r) u = g_pc s u /\ g_todo (fst r) u = g_todo s u).
  Proof.
    intros HT Hc Hp Ht. set (s1 := invoked s t o rest).
    pose proof (TI_invoked s t o rest HT Hp) as HT1. pose proof (calm_invoked s t o rest Hc) as Hc1. fold s1 in HT1, Hc1.
    assert (Ep : g_pc s1 t = start_pc o) by (unfold s1, invoked; cbn [g_pc]; destruct (Nat.eq_dec t t); congruence).
    assert (Hin : incall (g_pc s1 t)) by (rewrite Ep; apply start_incall).
    assert (Emu : mu s1 (start_pc o) = mu s (start_pc o)) by (apply mu_view; reflexivity).
    destruct (solo_completes t (mu s1 (g_pc s1 t)) s1 HT1 Hc1 Hin (le_n _)) as [m [Hm Hfin]]. cbv zeta in Hfin.
    destruct m as [|m]; [cbn [repeat XMachine.xrun fst] in Hfin; destruct Hfin as [F _]; destruct Hin as [Hn _]; contradiction|].
    exists (S m). split; [unfold tbound; rewrite Hp, Ht, <- Emu, <- Ep; exact Hm|].
    assert (Hne : step_pc s1 t (start_pc o) <> None) by (rewrite <- Ep; apply (calm_enabled s1 t HT1 (calm_q _ _ Hc1)); apply Hin).
    cbv zeta. rewrite (invoke_run s t o rest m Hp Ht Hne). fold s1. cbn [fst snd].
    destruct Hfin as [F1 [[res F2] [F3 [F4 [F5 F6]]]]].
    split; [exact F1|]. split; [rewrite F6; unfold s1, invoked; cbn [g_todo]; destruct (Nat.eq_dec t t); congruence|].
    split; [left; reflexivity|]. split; [exists res; right; exact F2|]. split; [exact F3|]. split; [exact F4|].
    intros u Hne'. split.
    - rewrite (F5 u Hne'). unfold s1, invoked. cbn [g_pc]. destruct (Nat.eq_dec u t); [contradiction | reflexivity].
    - rewrite F6. unfold s1, invoked. cbn [g_todo]. destruct (Nat.eq_dec u t); [contradiction | reflexivity].
  Qed.

  (* (T1) for a thread inside a call *)
  Theorem solo_finish s t : TI s -> calm s t -> incall (g_pc s t) ->
    exists m, m <= tbound s t /\
      let r := xrun s (repeat t m) in
      g_pc (fst r) t = PIdle /\ (exists res, In (XRes t res) (snd r))
      /\ TI (fst r) /\ calm (fst r) t
      /\ (forall u, u <> t -> g_pc (fst r) u = g_pc s u) /\ g_todo (fst r) = g_todo s.
  Proof.
    intros HT Hc Hin.
    assert (Eb : tbound s t = mu s (g_pc s t)) by (unfold tbound; destruct Hin as [Hn _]; destruct (g_pc s t); try reflexivity; contradiction).
    rewrite Eb. apply (solo_completes t _ s HT Hc Hin (le_n _)).
  Qed.


  (* ================ (T2) from every reachable state all threads can finish ================ *)

  (* ---------------- phase A: every critical section is left ---------------- *)

  Definition nolock (s : xstate) : Prop := forall u, holds s (g_pc s u) = None.
  Definition nomu (s : xstate) : Prop := forall u, holds_mu (g_pc s u) = false.
  Definition norz (s : xstate) : Prop := forall u, resizer (g_pc s u) = false.

  Lemma xrun_repeat_S s t m s1 ls1 : xstep s t = Some (s1, ls1) ->
    xrun s (repeat t (S m)) = (fst (xrun s1 (repeat t m)), ls1 ++ snd (xrun s1 (repeat t m))).
  Proof.
    intros E. cbn [repeat XMachine.xrun]. rewrite E. destruct (XMachine.xrun _ _ _ _ _ _ _ _ _ _ _ _ s1 (repeat t m)). reflexivity.
  Qed.

  (* the holder of a bucket lock, run alone, releases it; nobody else moves *)
  Lemma drain_cs u : forall n s, TI s -> holds s (g_pc s u) <> None -> cs_bound nslots nstripes s (g_pc s u) <= n ->
    exists m, let r := xrun s (repeat u m) in
      holds (fst r) (g_pc (fst r) u) = None /\ TI (fst r)
      /\ (forall w, w <> u -> g_pc (fst r) w = g_pc s w) /\ g_todo (fst r) = g_todo s.
  Proof.
    induction n as [|n IH]; intros s HT Hh Hb; pose proof HT as [HI [HW HK]].
    all: destruct (holds s (g_pc s u)) as [[tab b]|] eqn:Eh; [|exfalso; apply Hh; reflexivity].
    all: assert (Hni : g_pc s u <> PIdle) by (intros Ei; rewrite Ei in Eh; discriminate Eh).
    all: destruct (step_pc s u (g_pc s u)) as [[s1 ls1]|] eqn:E;
      [|exfalso; eapply (holder_steps eqd hash idx tag nslots seeds grow_needed shrink_policy probe nstripes minlen grow_only); eassumption].
    all: assert (Ex : xstep s u = Some (s1, ls1)) by (rewrite (xstep_of_pc eqd hash idx tag nslots seeds grow_needed shrink_policy probe nstripes minlen grow_only s u Hni); exact E).
    all: pose proof (TI_xstep s u s1 ls1 HT Ex) as HT1.
    all: assert (Hio : X_c13.inner_ok (g_pc s u)) by (apply (xw_inner s HW)).
    all: destruct (step_effect eqd hash idx tag nslots seeds grow_needed shrink_policy probe nstripes minlen grow_only s u _ s1 ls1 Hio E) as [Hoth _].
    all: assert (Hnb : is_bcast (g_pc s u) = false) by (destruct (g_pc s u); try reflexivity; discriminate Eh).
    all: rewrite Hnb in Hoth.
    all: assert (Htd : g_todo s1 = g_todo s) by (clear -E; destruct (g_pc s u); step_cases E; reflexivity).
    all: destruct (cs_bounded eqd hash idx tag nslots seeds grow_needed shrink_policy probe nstripes minlen grow_only Hminlen
                     s u _ s1 ls1 tab b (xi_valid _ _ _ _ s HI u) Eh E) as [Hrel|Hdec].
    all: try (exists 1; cbv zeta; rewrite (xrun_repeat_S s u 0 s1 ls1 Ex); cbn [repeat XMachine.xrun fst snd];
              split; [exact Hrel|]; split; [exact HT1|]; split; [exact Hoth | exact Htd]).
    - exfalso. lia.
    - destruct (holds s1 (g_pc s1 u)) as [[tab1 b1]|] eqn:Eh1.
      + destruct (IH s1 HT1) as [m Hfin]; [rewrite Eh1; discriminate | lia|]. cbv zeta in Hfin.
        exists (S m). cbv zeta. rewrite (xrun_repeat_S s u m s1 ls1 Ex). cbn [fst snd].
        destruct Hfin as [F1 [F2 [F3 F4]]]. split; [exact F1|]. split; [exact F2|].
        split; [intros w Hw; rewrite (F3 w Hw); apply Hoth; exact Hw | rewrite F4; exact Htd].
      + exists 1. cbv zeta. rewrite (xrun_repeat_S s u 0 s1 ls1 Ex). cbn [repeat XMachine.xrun fst snd].
        split; [exact Eh1|]. split; [exact HT1|]. split; [exact Hoth | exact Htd].
  Qed.


  Lemma xrun_app a : forall s b, xrun s (a ++ b) = (fst (xrun (fst (xrun s a)) b), snd (xrun s a) ++ snd (xrun (fst (xrun s a)) b)).
  Proof.
    induction a as [|t r IH]; intros s b; cbn [app XMachine.xrun].
    - cbn [fst snd app]. destruct (XMachine.xrun _ _ _ _ _ _ _ _ _ _ _ _ s b). reflexivity.
    - destruct (xstep s t) as [[s1 ls1]|]; [|apply IH].
      rewrite (IH s1 b). destruct (XMachine.xrun _ _ _ _ _ _ _ _ _ _ _ _ s1 r) as [s2 ls2]. cbn [fst snd].
      rewrite app_assoc. reflexivity.
  Qed.

  Lemma holds_dec s (p : pc) : holds s p = None \/ holds s p <> None.
  Proof. destruct (holds s p); [right; discriminate | left; reflexivity]. Qed.

  (* every thread of the list leaves its critical section; a thread that holds no bucket lock does not move *)
  Lemma drain_all l : forall s, TI s ->
    exists sched, let r := xrun s sched in
      TI (fst r) /\ (forall u, In u l -> holds (fst r) (g_pc (fst r) u) = None)
      /\ (forall w, holds s (g_pc s w) = None -> g_pc (fst r) w = g_pc s w) /\ g_todo (fst r) = g_todo s.
  Proof.
    induction l as [|u l IH]; intros s HT.
    - exists []. cbv zeta. cbn [XMachine.xrun fst snd]. split; [exact HT|]. split; [intros u []|]. split; auto.
    - destruct (holds_dec s (g_pc s u)) as [Hn|Hh].
      + destruct (IH s HT) as [sched Hf]. cbv zeta in Hf. destruct Hf as [F1 [F2 [F3 F4]]]. exists sched. cbv zeta. split; [exact F1|]. split; [|split; assumption].
        intros v [<-|Hv]; [rewrite (F3 u Hn); apply (holds_none_indep s); exact Hn | apply F2; exact Hv].
      + destruct (drain_cs u _ s HT Hh (le_n _)) as [m Hd]. cbv zeta in Hd. destruct Hd as [D1 [D2 [D3 D4]]].
        set (s1 := fst (xrun s (repeat u m))) in *.
        destruct (IH s1 D2) as [sched Hf]. cbv zeta in Hf. destruct Hf as [F1 [F2 [F3 F4]]].
        exists (repeat u m ++ sched). cbv zeta. rewrite xrun_app. cbn [fst]. fold s1.
        split; [exact F1|]. split; [|split].
        * intros v [<-|Hv]; [rewrite (F3 u D1); apply (holds_none_indep s1); exact D1 | apply F2; exact Hv].
        * intros w Hw. assert (Hne : w <> u) by (intros ->; apply Hh; exact Hw).
          rewrite <- (D3 w Hne). apply F3. rewrite (D3 w Hne). apply (holds_none_indep s). exact Hw.
        * rewrite F4. exact D4.
  Qed.


  (* ---------------- phase M: resizeMu is released ---------------- *)

  Definition mubound (p : pc) : nat :=
    match p with
    | PR_FinStore _ => 3 | PR_FinBcast _ => 2 | PR_FinUnlock _ => 1
    | PT_Load _ _ => 2 | PT_Wait _ _ => 1 | PT_Unlock _ _ => 1
    | _ => 0
    end.

  Lemma mu_bounded s t p s' ls : holds_mu p = true -> step_pc s t p = Some (s', ls) ->
    (holds_mu (g_pc s' t) = false \/ mubound (g_pc s' t) < mubound p) /\ holds s' (g_pc s' t) = None.
  Proof.
    intros Hm Hs. destruct p; try discriminate Hm; step_cases Hs; cbn [set_pc g_pc];
      (destruct (Nat.eq_dec t t) as [_|Hx]; [|exfalso; apply Hx; reflexivity]); cbn [norm holds_mu mubound holds].
    all: try (split; [right; lia | reflexivity]).
    all: try (split; [left; reflexivity | reflexivity]).
    all: match goal with |- context [run_cont ?k] => destruct k end; cbn [run_cont norm holds_mu]; (split; [left; reflexivity | reflexivity]).
  Qed.

  Lemma drain_mu u : forall n s, TI s -> holds_mu (g_pc s u) = true -> mubound (g_pc s u) <= n ->
    exists m, let r := xrun s (repeat u m) in
      holds_mu (g_pc (fst r) u) = false /\ holds (fst r) (g_pc (fst r) u) = None /\ TI (fst r)
      /\ (forall w, w <> u -> pcq (g_pc s w) (g_pc (fst r) w)) /\ g_todo (fst r) = g_todo s.
  Proof.
    induction n as [|n IH]; intros s HT Hm Hb; pose proof HT as [HI [HW HK]].
    all: assert (Hni : g_pc s u <> PIdle) by (intros Ei; rewrite Ei in Hm; discriminate Hm).
    all: destruct (step_pc s u (g_pc s u)) as [[s1 ls1]|] eqn:E;
      [|exfalso; eapply (mu_holder_steps eqd hash idx tag nslots seeds grow_needed shrink_policy probe nstripes minlen grow_only); eassumption].
    all: assert (Ex : xstep s u = Some (s1, ls1)) by (rewrite (xstep_of_pc eqd hash idx tag nslots seeds grow_needed shrink_policy probe nstripes minlen grow_only s u Hni); exact E).
    all: pose proof (TI_xstep s u s1 ls1 HT Ex) as HT1.
    all: assert (Hio : X_c13.inner_ok (g_pc s u)) by (apply (xw_inner s HW)).
    all: destruct (step_effect eqd hash idx tag nslots seeds grow_needed shrink_policy probe nstripes minlen grow_only s u _ s1 ls1 Hio E) as [Hoth _].
    all: assert (Ho : forall w, w <> u -> pcq (g_pc s w) (g_pc s1 w))
           by (intros w Hw; rewrite (Hoth w Hw); destruct (is_bcast (g_pc s u)); [right | left]; reflexivity).
    all: assert (Htd : g_todo s1 = g_todo s) by (clear -E; destruct (g_pc s u); step_cases E; reflexivity).
    all: destruct (mu_bounded s u _ s1 ls1 Hm E) as [[Hrel|Hdec] Hnl].
    all: try (exists 1; cbv zeta; rewrite (xrun_repeat_S s u 0 s1 ls1 Ex); cbn [repeat XMachine.xrun fst snd];
              split; [exact Hrel|]; split; [exact Hnl|]; split; [exact HT1|]; split; [exact Ho | exact Htd]).
    - exfalso. lia.
    - destruct (holds_mu (g_pc s1 u)) eqn:Em1.
      + destruct (IH s1 HT1 Em1) as [m Hfin]; [lia|]. cbv zeta in Hfin.
        exists (S m). cbv zeta. rewrite (xrun_repeat_S s u m s1 ls1 Ex). cbn [fst snd].
        destruct Hfin as [F1 [F2 [F3 [F4 F5]]]]. split; [exact F1|]. split; [exact F2|]. split; [exact F3|].
        split; [intros w Hw; eapply pcq_trans; [apply Ho; exact Hw | apply F4; exact Hw] | rewrite F5; exact Htd].
      + exists 1. cbv zeta. rewrite (xrun_repeat_S s u 0 s1 ls1 Ex). cbn [repeat XMachine.xrun fst snd].
        split; [exact Em1|]. split; [exact Hnl|]. split; [exact HT1|]. split; [exact Ho | exact Htd].
  Qed.


  (* ---------------- phases A, M, R together: a state in which nobody holds anything ---------------- *)

  Definition quiet_all (s : xstate) : Prop := nolock s /\ nomu s /\ norz s.

  Lemma pcq_holds s s' (p p' : pc) : pcq p p' -> holds s p = None -> holds s' p' = None.
  Proof. intros [->| ->] H; [apply (holds_none_indep s); exact H|]. destruct p; cbn in *; try discriminate H; reflexivity. Qed.
  Lemma pcq_mu (p p' : pc) : pcq p p' -> holds_mu p = false -> holds_mu p' = false.
  Proof. intros [->| ->] H; [exact H|]. destruct p; cbn in *; try discriminate H; reflexivity. Qed.
  Lemma pcq_rz (p p' : pc) : pcq p p' -> resizer p = false -> resizer p' = false.
  Proof. intros [->| ->] H; [exact H|]. destruct p; cbn in *; try discriminate H; reflexivity. Qed.
  Lemma pcq_start (p p' : pc) : pcq p p' -> p = PStart -> p' = PStart.
  Proof. intros [->| ->] H; rewrite H; reflexivity. Qed.

  Lemma reach_quiet (ths : list nat) s : TI s -> (forall u, ~ In u ths -> g_pc s u = PStart) ->
    exists sched, let r := xrun s sched in
      TI (fst r) /\ quiet_all (fst r) /\ g_todo (fst r) = g_todo s /\ (forall u, g_pc s u = PStart -> g_pc (fst r) u = PStart).
  Proof.
    intros HT Hout.
    (* A *)
    destruct (drain_all ths s HT) as [sa Ha]. cbv zeta in Ha. destruct Ha as [A1 [A2 [A3 A4]]].
    set (s1 := fst (xrun s sa)) in *.
    assert (NL1 : nolock s1).
    { intros u. destruct (in_dec Nat.eq_dec u ths) as [Hi|Hi]; [apply A2; exact Hi|].
      assert (Hn : holds s (g_pc s u) = None) by (rewrite (Hout u Hi); reflexivity).
      rewrite (A3 u Hn). apply (holds_none_indep s). exact Hn. }
    assert (PS1 : forall u, g_pc s u = PStart -> g_pc s1 u = PStart).
    { intros u E. rewrite (A3 u); [exact E | rewrite E; reflexivity]. }
    (* M *)
    assert (HM : exists sm, let r := xrun s1 sm in TI (fst r) /\ nolock (fst r) /\ nomu (fst r) /\ g_todo (fst r) = g_todo s1
                            /\ (forall u, g_pc s1 u = PStart -> g_pc (fst r) u = PStart)).
    { pose proof A1 as [HI1 _]. destruct (g_rmu s1) as [m|] eqn:Em.
      - pose proof (xi_muB _ _ _ _ s1 HI1 m Em) as Hm.
        destruct (drain_mu m _ s1 A1 Hm (le_n _)) as [k Hd]. cbv zeta in Hd. destruct Hd as [D1 [D2 [D3 [D4 D5]]]].
        exists (repeat m k). cbv zeta. split; [exact D3|]. split; [|split; [|split]].
        + intros u. destruct (Nat.eq_dec u m) as [->|Hne]; [exact D2 | apply (pcq_holds s1 _ _ _ (D4 u Hne)); apply NL1].
        + intros u. destruct (Nat.eq_dec u m) as [->|Hne]; [exact D1|]. apply (pcq_mu _ _ (D4 u Hne)).
          destruct (holds_mu (g_pc s1 u)) eqn:Eu; [|reflexivity]. exfalso. apply Hne.
          pose proof (xi_muA _ _ _ _ s1 HI1 u Eu). congruence.
        + exact D5.
        + intros u E. destruct (Nat.eq_dec u m) as [->|Hne]; [rewrite E in Hm; discriminate Hm | apply (pcq_start _ _ (D4 u Hne) E)].
      - exists []. cbv zeta. cbn [XMachine.xrun fst]. split; [exact A1|]. split; [exact NL1|]. split; [|split; auto].
        intros u. destruct (holds_mu (g_pc s1 u)) eqn:Eu; [|reflexivity]. pose proof (xi_muA _ _ _ _ s1 HI1 u Eu). congruence. }
    destruct HM as [sm Hm]. cbv zeta in Hm. destruct Hm as [M1 [M2 [M3 [M4 M5]]]].
    set (s2 := fst (xrun s1 sm)) in *.
    (* R *)
    assert (HR : exists sr, let r := xrun s2 sr in TI (fst r) /\ quiet_all (fst r) /\ g_todo (fst r) = g_todo s2
                            /\ (forall u, g_pc s2 u = PStart -> g_pc (fst r) u = PStart)).
    { pose proof M1 as [HI2 _]. destruct (g_resizing s2) eqn:Ez.
      - destruct (xi_rzC _ _ _ _ s2 HI2 Ez) as [r Hr].
        assert (Hq : qcalm s2 r).
        { intros u Hne. split; [apply M2|]. split; [apply M3|].
          destruct (resizer (g_pc s2 u)) eqn:Eu; [|reflexivity]. exfalso. apply Hne. apply (xi_rzB _ _ _ _ s2 HI2 u r Eu Hr). }
        assert (Hin : incall (g_pc s2 r)) by (split; intros E; rewrite E in Hr; discriminate Hr).
        destruct (solo_completes_q r _ s2 M1 Hq Hin (le_n _)) as [k [_ Hf]]. cbv zeta in Hf.
        destruct Hf as [F1 [_ [F3 [F4 [F5 F6]]]]].
        exists (repeat r k). cbv zeta. split; [exact F3|]. split; [|split; [exact F6|]].
        + split; [|split]; intros u; (destruct (Nat.eq_dec u r) as [->|Hne]; [rewrite F1; reflexivity | apply (F4 u Hne)]).
        + intros u E. destruct (Nat.eq_dec u r) as [->|Hne]; [destruct Hin as [_ Hs]; contradiction | apply (pcq_start _ _ (F5 u Hne) E)].
      - exists []. cbv zeta. cbn [XMachine.xrun fst]. split; [exact M1|]. split; [|split; auto].
        split; [exact M2|]. split; [exact M3|]. intros u. destruct (resizer (g_pc s2 u)) eqn:Eu; [|reflexivity].
        pose proof (xi_rzA _ _ _ _ s2 HI2 u Eu). congruence. }
    destruct HR as [sr Hr]. cbv zeta in Hr. destruct Hr as [R1 [R2 [R3 R4]]].
    exists (sa ++ sm ++ sr). cbv zeta. rewrite xrun_app. cbn [fst]. fold s1. rewrite xrun_app. cbn [fst]. fold s2.
    split; [exact R1|]. split; [exact R2|]. split; [rewrite R3, M4; exact A4|].
    intros u E. apply R4, M5, PS1. exact E.
  Qed.


  (* ---------------- phase 2: one thread after the other, alone ---------------- *)

  Lemma quiet_calm s t : TI s -> quiet_all s -> calm s t.
  Proof.
    intros [HI [HW _]] [NL [NM NR]] u _. split; [apply NL|]. split; [apply NM|]. split; [apply NR|].
    intros hn kt E. destruct (xw_waiting s HW u hn kt E) as [Hr|[w [kt' Hw]]].
    - destruct (xi_rzC _ _ _ _ s HI Hr) as [r Hrz]. rewrite (NR r) in Hrz. discriminate Hrz.
    - pose proof (NM w) as H. rewrite Hw in H. discriminate H.
  Qed.

  Lemma calm_idle_quiet s t : calm s t -> g_pc s t = PIdle -> quiet_all s.
  Proof.
    intros Hc Hp. split; [|split]; intros u; (destruct (Nat.eq_dec u t) as [->|Hne]; [rewrite Hp; reflexivity | apply (Hc u Hne)]).
  Qed.

  Definition finished (s : xstate) (t : nat) : Prop := g_pc s t = PIdle /\ g_todo s t = [].
  Definition same_thread (s s' : xstate) (u : nat) : Prop := g_pc s' u = g_pc s u /\ g_todo s' u = g_todo s u.

  Lemma finish_todo t : forall n s, TI s -> quiet_all s -> g_pc s t = PIdle -> length (g_todo s t) <= n ->
    exists sched, let r := xrun s sched in
      TI (fst r) /\ quiet_all (fst r) /\ finished (fst r) t /\ (forall u, u <> t -> same_thread s (fst r) u).
  Proof.
    induction n as [|n IH]; intros s HT HQ Hp Hn.
    - exists []. cbv zeta. cbn [XMachine.xrun fst]. split; [exact HT|]. split; [exact HQ|]. split; [|intros; split; reflexivity].
      split; [exact Hp|]. destruct (g_todo s t); [reflexivity | cbn in Hn; lia].
    - destruct (g_todo s t) as [|o rest] eqn:Et.
      + exists []. cbv zeta. cbn [XMachine.xrun fst]. split; [exact HT|]. split; [exact HQ|]. split; [split; assumption | intros; split; reflexivity].
      + destruct (solo_call s t o rest HT (quiet_calm s t HT HQ) Hp Et) as [m [_ Hf]]. cbv zeta in Hf.
        destruct Hf as [F1 [F2 [_ [_ [F5 [F6 F7]]]]]].
        set (s1 := fst (xrun s (repeat t m))) in *.
        destruct (IH s1 F5 (calm_idle_quiet s1 t F6 F1) F1) as [sched Hg]; [rewrite F2; cbn in Hn; lia|]. cbv zeta in Hg.
        destruct Hg as [G1 [G2 [G3 G4]]].
        exists (repeat t m ++ sched). cbv zeta. rewrite xrun_app. cbn [fst]. fold s1.
        split; [exact G1|]. split; [exact G2|]. split; [exact G3|].
        intros u Hne. destruct (G4 u Hne) as [A B]. destruct (F7 u Hne) as [C D]. split; congruence.
  Qed.

  Lemma finish_thread t s : TI s -> quiet_all s ->
    exists sched, let r := xrun s sched in
      TI (fst r) /\ quiet_all (fst r) /\ finished (fst r) t /\ (forall u, u <> t -> same_thread s (fst r) u).
  Proof.
    intros HT HQ.
    (* first to PIdle *)
    assert (H1 : exists sched, let r := xrun s sched in
              TI (fst r) /\ quiet_all (fst r) /\ g_pc (fst r) t = PIdle /\ (forall u, u <> t -> same_thread s (fst r) u)).
    { destruct (pc_eq_idle (g_pc s t)) as [Ei|Ei].
      - exists []. cbv zeta. cbn [XMachine.xrun fst]. split; [exact HT|]. split; [exact HQ|]. split; [exact Ei|]. intros; split; reflexivity.
      - destruct (g_pc s t) eqn:Ep; try (
          assert (Hin : incall (g_pc s t)) by (rewrite Ep; split; discriminate);
          destruct (solo_finish s t HT (quiet_calm s t HT HQ) Hin) as [m [_ Hf]]; cbv zeta in Hf;
          destruct Hf as [F1 [_ [F3 [F4 [F5 F6]]]]];
          exists (repeat t m); cbv zeta; split; [exact F3|]; split; [apply (calm_idle_quiet _ t F4 F1)|]; split; [exact F1|];
          intros u Hne; split; [apply F5; exact Hne | rewrite F6; reflexivity]).
        + (* PStart *)
          assert (Ex : xstep s t = Some (set_pc s t PIdle, [XStep t KStart])) by (unfold XMachine.xstep; rewrite Ep; reflexivity).
          exists [t]. cbv zeta. cbn [XMachine.xrun]. rewrite Ex. cbn [fst].
          split; [apply (TI_xstep s t _ _ HT Ex)|]. destruct HQ as [NL [NM NR]].
          split; [|split].
          * split; [|split]; intros u; cbn [set_pc g_pc]; (destruct (Nat.eq_dec u t); [reflexivity|]);
              [apply (holds_none_indep s); apply NL | apply NM | apply NR].
          * cbn [set_pc g_pc]. destruct (Nat.eq_dec t t) as [_|Hx]; [reflexivity | exfalso; apply Hx; reflexivity].
          * intros u Hne. split; [cbn [set_pc g_pc]; destruct (Nat.eq_dec u t); [contradiction | reflexivity] | reflexivity].
        + exfalso. apply Ei. reflexivity. }
    destruct H1 as [s0 Hf]. cbv zeta in Hf. destruct Hf as [F1 [F2 [F3 F4]]].
    set (s1 := fst (xrun s s0)) in *.
    destruct (finish_todo t _ s1 F1 F2 F3 (le_n _)) as [sched Hg]. cbv zeta in Hg. destruct Hg as [G1 [G2 [G3 G4]]].
    exists (s0 ++ sched). cbv zeta. rewrite xrun_app. cbn [fst]. fold s1.
    split; [exact G1|]. split; [exact G2|]. split; [exact G3|].
    intros u Hne. destruct (G4 u Hne) as [A B]. destruct (F4 u Hne) as [C D]. split; congruence.
  Qed.

  Lemma finish_list l : forall s, TI s -> quiet_all s ->
    exists sched, let r := xrun s sched in
      TI (fst r) /\ quiet_all (fst r) /\ (forall t, In t l -> finished (fst r) t) /\ (forall u, ~ In u l -> same_thread s (fst r) u).
  Proof.
    induction l as [|t l IH]; intros s HT HQ.
    - exists []. cbv zeta. cbn [XMachine.xrun fst]. split; [exact HT|]. split; [exact HQ|]. split; [intros t []|]. intros; split; reflexivity.
    - destruct (finish_thread t s HT HQ) as [s0 Hf]. cbv zeta in Hf. destruct Hf as [F1 [F2 [F3 F4]]].
      set (s1 := fst (xrun s s0)) in *.
      destruct (IH s1 F1 F2) as [sched Hg]. cbv zeta in Hg. destruct Hg as [G1 [G2 [G3 G4]]].
      exists (s0 ++ sched). cbv zeta. rewrite xrun_app. cbn [fst]. fold s1.
      split; [exact G1|]. split; [exact G2|]. split.
      + intros u [<-|Hu]; [|apply G3; exact Hu].
        destruct (in_dec Nat.eq_dec t l) as [Hi|Hi]; [apply G3; exact Hi|].
        destruct (G4 t Hi) as [A B]. destruct F3 as [C D]. split; congruence.
      + intros u Hu. assert (Hne : u <> t) by (intros ->; apply Hu; left; reflexivity).
        assert (Hnl : ~ In u l) by (intros H; apply Hu; right; exact H).
        destruct (G4 u Hnl) as [A B]. destruct (F4 u Hne) as [C D]. split; congruence.
  Qed.

  (* (T2) no reachable state is doomed: if only the threads of a finite list have ever run or have work, there is a
     finite schedule after which every one of them has returned from all its calls *)
  Theorem can_finish (ths : list nat) s : TI s -> (forall u, ~ In u ths -> g_pc s u = PStart) ->
    exists sched, let r := xrun s sched in
      (forall t, In t ths -> finished (fst r) t) /\ (forall u, ~ In u ths -> g_pc (fst r) u = PStart /\ g_todo (fst r) u = g_todo s u)
      /\ TI (fst r) /\ quiet_all (fst r).
  Proof.
    intros HT Hout.
    destruct (reach_quiet ths s HT Hout) as [s0 Hq]. cbv zeta in Hq. destruct Hq as [Q1 [Q2 [Q3 Q4]]].
    set (s1 := fst (xrun s s0)) in *.
    destruct (finish_list ths s1 Q1 Q2) as [sched Hf]. cbv zeta in Hf. destruct Hf as [F1 [F2 [F3 F4]]].
    exists (s0 ++ sched). cbv zeta. rewrite xrun_app. cbn [fst]. fold s1.
    split; [exact F3|]. split; [|split; assumption].
    intros u Hu. destruct (F4 u Hu) as [A B]. split; [rewrite A; apply Q4; apply Hout; exact Hu | rewrite B, Q3; reflexivity].
  Qed.


  (* a thread that has not started is not touched by the steps of the others *)
  Lemma start_stays s t s' ls u : TI s -> xstep s t = Some (s', ls) -> u <> t -> g_pc s u = PStart -> g_pc s' u = PStart.
  Proof.
    intros HT E Hne Hu.
    assert (Hgen : forall s0 p s9 ls9, XW s0 -> g_pc s0 t = p -> g_pc s0 u = PStart -> step_pc s0 t p = Some (s9, ls9) -> g_pc s9 u = PStart).
    { intros s0 p s9 ls9 HW0 Hp Hu0 Hs. assert (Hio : X_c13.inner_ok p) by (rewrite <- Hp; apply (xw_inner s0 HW0)).
      destruct (step_effect eqd hash idx tag nslots seeds grow_needed shrink_policy probe nstripes minlen grow_only s0 t p s9 ls9 Hio Hs) as [Hoth _].
      rewrite (Hoth u Hne), Hu0. destruct (is_bcast p); reflexivity. }
    pose proof HT as [_ [HW _]]. unfold XMachine.xstep in E.
    destruct (g_pc s t) eqn:Hp; try (apply (Hgen s _ s' ls HW Hp Hu E)).
    destruct (g_todo s t) as [|o rest] eqn:Et; [discriminate|].
    change (match step_pc (invoked s t o rest) t (start_pc o) with
            | Some (s2, ls0) => Some (s2, XMachine.XInv t o :: ls0)
            | None => Some (invoked s t o rest, [XMachine.XInv t o])
            end = Some (s', ls)) in E.
    destruct (TI_invoked s t o rest HT Hp) as [_ [HW1 _]].
    assert (Hu1 : g_pc (invoked s t o rest) u = PStart) by (cbn [invoked g_pc]; destruct (Nat.eq_dec u t); [contradiction | exact Hu]).
    destruct (step_pc (invoked s t o rest) t (start_pc o)) as [[s2 ls0]|] eqn:E2.
    - inversion E; subst s2 ls. apply (Hgen (invoked s t o rest) (start_pc o) s' ls0 HW1); [cbn [invoked g_pc]; destruct (Nat.eq_dec t t); congruence | exact Hu1 | exact E2].
    - inversion E; subst s' ls. exact Hu1.
  Qed.

  Lemma unscheduled_start sched : forall s u, TI s -> ~ In u sched -> g_pc s u = PStart -> g_pc (fst (xrun s sched)) u = PStart.
  Proof.
    induction sched as [|t rest IH]; intros s u HT Hn Hu; cbn [XMachine.xrun]; [exact Hu|].
    assert (Hne : u <> t) by (intros ->; apply Hn; left; reflexivity).
    assert (Hn' : ~ In u rest) by (intros H; apply Hn; right; exact H).
    destruct (xstep s t) as [[s1 ls1]|] eqn:E; [|apply IH; assumption].
    specialize (IH s1 u (TI_xstep s t s1 ls1 HT E) Hn' (start_stays s t s1 ls1 u HT E Hne Hu)).
    destruct (XMachine.xrun _ _ _ _ _ _ _ _ _ _ _ _ s1 rest). exact IH.
  Qed.

End Term.

(* ---------------- (T1) for every reachable state ---------------- *)
Section FinalT1.
  Context {K V : Type}.
  Variable eqd : forall a b : K, {a = b} + {a <> b}.
  Variable hash : K -> N -> N.
  Variable idx : N -> nat -> nat.
  Variable tag : N -> N.
  Variable nslots : nat.
  Variable seeds : nat -> N.
  Variable grow_needed shrink_policy : nat -> Z -> bool.
  Variable probe : list (option N) -> N -> list nat.
  Variable nstripes : nat -> nat.
  Variable minlen : nat.
  Variable grow_only : bool.

  Notation xrun := (@xrun K V eqd hash idx tag nslots seeds grow_needed shrink_policy probe nstripes minlen grow_only).

  Lemma reachable_TI : xhyps idx nstripes minlen -> forall len0 todo sched, 0 < len0 ->
    TI hash idx nslots nstripes (fst (xrun (xinit nslots seeds nstripes len0 todo) sched)).
  Proof.
    intros [H1 [H2 H3]] len0 todo sched Hl.
    apply (TI_xrun eqd hash idx tag nslots seeds grow_needed shrink_policy probe nstripes minlen grow_only H1 H2 H3).
    apply (TI_init hash idx nslots seeds nstripes minlen H2 H3 len0 todo Hl).
  Qed.

  (* thread t idle with next call o, in a reachable state that is calm for t: run alone it completes the call *)
  Theorem solo_call_proof :
    xhyps idx nstripes minlen -> ghyp grow_needed -> forall len0 todo sched t o rest, 0 < len0 ->
    let s := fst (xrun (xinit nslots seeds nstripes len0 todo) sched) in
    calm hash idx nslots nstripes s t -> g_pc s t = PIdle -> g_todo s t = o :: rest ->
    exists m, m <= tbound hash idx tag nslots probe nstripes s t /\
      let r := xrun s (repeat t m) in
      g_pc (fst r) t = PIdle /\ g_todo (fst r) t = rest
      /\ In (XMachine.XInv t o) (snd r) /\ (exists res, In (XRes t res) (snd r))
      /\ calm hash idx nslots nstripes (fst r) t
      /\ (forall u, u <> t -> g_pc (fst r) u = g_pc s u /\ g_todo (fst r) u = g_todo s u).
  Proof.
    intros Hx Hg len0 todo sched t o rest Hl s Hc Hp Ht. pose proof Hx as [H1 [H2 H3]].
    destruct (solo_call eqd hash idx tag nslots seeds grow_needed shrink_policy probe nstripes minlen grow_only H1 H2 H3 Hg
                s t o rest (reachable_TI Hx len0 todo sched Hl) Hc Hp Ht) as [m [Hm Hf]].
    exists m. split; [exact Hm|]. cbv zeta in *. tauto.
  Qed.

  (* thread t inside a call, in a reachable state that is calm for t: run alone it finishes the call *)
  Theorem solo_finish_proof :
    xhyps idx nstripes minlen -> ghyp grow_needed -> forall len0 todo sched t, 0 < len0 ->
    let s := fst (xrun (xinit nslots seeds nstripes len0 todo) sched) in
    calm hash idx nslots nstripes s t -> incall (g_pc s t) ->
    exists m, m <= tbound hash idx tag nslots probe nstripes s t /\
      let r := xrun s (repeat t m) in
      g_pc (fst r) t = PIdle /\ (exists res, In (XRes t res) (snd r))
      /\ calm hash idx nslots nstripes (fst r) t
      /\ (forall u, u <> t -> g_pc (fst r) u = g_pc s u) /\ g_todo (fst r) = g_todo s.
  Proof.
    intros Hx Hg len0 todo sched t Hl s Hc Hin. pose proof Hx as [H1 [H2 H3]].
    destruct (solo_finish eqd hash idx tag nslots seeds grow_needed shrink_policy probe nstripes minlen grow_only H1 H2 H3 Hg
                s t (reachable_TI Hx len0 todo sched Hl) Hc Hin) as [m [Hm Hf]].
    exists m. split; [exact Hm|]. cbv zeta in *. tauto.
  Qed.

  (* (T2) CAN ALWAYS FINISH.  Every state any schedule reaches, if only threads of the finite list ths were ever scheduled,
     has a finite continuation after which every thread of ths is idle with an empty todo list: no reachable state is doomed.
     (Threads outside ths have not started; their todo lists are untouched.) *)
  Theorem can_always_finish :
    xhyps idx nstripes minlen -> ghyp grow_needed -> forall len0 todo sched ths, 0 < len0 ->
    (forall u, In u sched -> In u ths) ->
    let s := fst (xrun (xinit nslots seeds nstripes len0 todo) sched) in
    exists cont, let r := xrun s cont in
      (forall t, In t ths -> g_pc (fst r) t = PIdle /\ g_todo (fst r) t = [])
      /\ (forall u, ~ In u ths -> g_pc (fst r) u = PStart /\ g_todo (fst r) u = g_todo s u).
  Proof.
    intros Hx Hg len0 todo sched ths Hl Hs s. pose proof Hx as [H1 [H2 H3]].
    pose proof (reachable_TI Hx len0 todo sched Hl) as HT. fold s in HT.
    assert (Hout : forall u, ~ In u ths -> g_pc s u = PStart).
    { intros u Hu. unfold s.
      apply (unscheduled_start eqd hash idx tag nslots seeds grow_needed shrink_policy probe nstripes minlen grow_only H1 H2 H3 sched);
        [apply (TI_init hash idx nslots seeds nstripes minlen H2 H3 len0 todo Hl) | intros Hi; apply Hu; apply Hs; exact Hi | reflexivity]. }
    destruct (can_finish eqd hash idx tag nslots seeds grow_needed shrink_policy probe nstripes minlen grow_only H1 H2 H3 Hg ths s HT Hout) as [c Hf].
    exists c. cbv zeta in *. destruct Hf as [F1 [F2 _]]. split; [exact F1 | exact F2].
  Qed.
End FinalT1.

(* ---------------- the executable instance (XExec: the numbers of mapof.go) ---------------- *)
From CacheV Require Import TabExec Exec XExec.
From CacheV.gen Require Import Params.
From CacheV.proofs Require Import X_inst.

(* mapof.go grows when  len * entriesPerMapOfBucket * 0.75 < size : that needs len < size *)
Lemma x_instance_ghyp : ghyp grow_needed_m.
Proof.
  intros len sum H. unfold grow_needed_m in H. apply Z.ltb_lt in H.
  assert (Z.of_nat len <= Z.of_nat len * entriesPerMapOfBucket * mapLoadFactor_num / mapLoadFactor_den)%Z; [|lia].
  apply Z.div_le_lower_bound; [vm_compute; reflexivity|]. change entriesPerMapOfBucket with 5%Z. change mapLoadFactor_num with 3%Z. change mapLoadFactor_den with 4%Z. lia.
Qed.

Notation x_run o seeds hint :=
  (xrun zeqd (hash_of o) idx_mapof tag_mapof (Z.to_nat entriesPerMapOfBucket) (seeds_of seeds)
        grow_needed_m shrink_policy_m probe_x nstripes_x (minlen_of_hint true hint) false).

(* the extracted MapOf machine: in a reachable state that is calm for t, an idle thread completes its next call alone *)
Theorem x_machine_solo_call (o : oracle) (seeds : list N) (hint : Z) (todo : nat -> list xop_z) (sched : list nat) t op rest :
  let s := fst (x_run o seeds hint (x_machine_init seeds hint todo) sched) in
  calm (hash_of o) idx_mapof (Z.to_nat entriesPerMapOfBucket) nstripes_x s t -> g_pc s t = PIdle -> g_todo s t = op :: rest ->
  exists m, (m <= tbound (hash_of o) idx_mapof tag_mapof (Z.to_nat entriesPerMapOfBucket) probe_x nstripes_x s t)%nat /\
    let r := x_run o seeds hint s (repeat t m) in
    g_pc (fst r) t = PIdle /\ g_todo (fst r) t = rest
    /\ In (XMachine.XInv t op) (snd r) /\ (exists res, In (XRes t res) (snd r))
    /\ calm (hash_of o) idx_mapof (Z.to_nat entriesPerMapOfBucket) nstripes_x (fst r) t
    /\ (forall u, u <> t -> g_pc (fst r) u = g_pc s u /\ g_todo (fst r) u = g_todo s u).
Proof.
  unfold x_machine_init.
  apply (solo_call_proof zeqd (hash_of o) idx_mapof tag_mapof (Z.to_nat entriesPerMapOfBucket) (seeds_of seeds)
           grow_needed_m shrink_policy_m probe_x nstripes_x (minlen_of_hint true hint) false (x_instance_hyps hint) x_instance_ghyp).
  apply minlen_of_hint_pos.
Qed.

(* ---------------- non-vacuity, and why ghyp is needed ---------------- *)
(* One slot per bucket, one bucket, one stripe.  [tex_grow len sum := len < sum] satisfies ghyp. *)
Definition tex_st k v : @xop nat nat := XCompute k (fun _ => Some v) false false false.
Definition tex_hash := (fun (k : nat) (_ : N) => N.of_nat k).
Definition tex_idx := (fun (h : N) len => Nat.modulo (N.to_nat h) len).
Definition tex_probe (tags : list (option N)) (tg : N) : list nat :=
  filter (fun i => match nth i tags None with Some _ => true | None => false end) (seq 0 (length tags)).
Definition tex_grow (len : nat) (sum : Z) : bool := (Z.of_nat len <? sum)%Z.
Definition tex_run ix gn (s : @xstate nat nat) (sched : list nat) :=
  @xrun nat nat Nat.eq_dec tex_hash ix (fun h => h) 1%nat (fun _ => 0%N) gn (fun _ _ => false) tex_probe (fun _ => 1%nat) 1%nat false s sched.
Definition tex_init (l : list (@xop nat nat)) : @xstate nat nat :=
  xinit 1%nat (fun _ => 0%N) (fun _ => 1%nat) 1%nat (fun t => match t with 0%nat => l | _ => [] end).
Definition tex_bound (s : @xstate nat nat) : nat := tbound tex_hash tex_idx (fun h => h) 1%nat tex_probe (fun _ => 1%nat) s 0%nat.

Lemma tex_ghyp : ghyp tex_grow.
Proof. intros len sum H. apply Z.ltb_lt in H. exact H. Qed.

(* Thread 0 stores keys 0, 1 and is idle with Store 2 as its next call (17 steps).  That call finds the chain full, sums
   the counter (2 > length 1), grows the table itself (copies the one bucket), retries in the new table, appends a bucket
   and returns: 24 steps, within the bound 75 computed from the state before the call; one growth; idle again at step 41. *)
Example solo_nonvacuous :
  let s := fst (tex_run tex_idx tex_grow (tex_init [tex_st 0 10; tex_st 1 11; tex_st 2 12]) (repeat 0 17)%nat) in
  g_pc s 0%nat = PIdle /\ length (g_todo s 0%nat) = 1%nat /\ g_growths s = 0%Z /\ tex_bound s = 75%nat
  /\ (forall n, In n [1; 5; 10; 15; 20; 23]%nat -> g_pc (fst (tex_run tex_idx tex_grow s (repeat 0 n)%nat)) 0%nat <> PIdle)
  /\ g_pc (fst (tex_run tex_idx tex_grow s (repeat 0 24)%nat)) 0%nat = PIdle
  /\ g_growths (fst (tex_run tex_idx tex_grow s (repeat 0 24)%nat)) = 1%Z
  /\ g_todo (fst (tex_run tex_idx tex_grow s (repeat 0 24)%nat)) 0%nat = [].
Proof.
  repeat split; try (vm_compute; reflexivity).
  intros n Hn. cbn [In] in Hn. repeat (destruct Hn as [<-|Hn]; [vm_compute; discriminate|]). destruct Hn.
Qed.

(* WITHOUT ghyp a call need not terminate even alone: grow_needed := fun _ _ => true (legal for the MODEL, whose policy is a
   parameter) and an index function that sends every key to bucket 0 (legal: idx h len < len).  The second Store finds the
   chain full, grows, retries in the doubled table, where the chain of bucket 0 is full again, grows, ...: after 1600 solo
   steps the thread is still inside that one call, has grown the table 10 times, length 512.  (Exhibited by computation for
   these step counts, not proved for all n.)  With tex_grow, which satisfies ghyp, the same call returns within 20 steps. *)
Example solo_writer_grows_forever :
  let ix := (fun (_ : N) (_ : nat) => 0%nat) in
  let run gn n := fst (tex_run ix gn (tex_init [tex_st 0 10; tex_st 1 11]) (repeat 0 n)%nat) in
  (forall n, In n [10; 100; 400; 800; 1600]%nat -> g_pc (run (fun _ _ => true) n) 0%nat <> PIdle /\ g_todo (run (fun _ _ => true) n) 0%nat = [])
  /\ g_growths (run (fun _ _ => true) 100%nat) = 4%Z /\ g_growths (run (fun _ _ => true) 1600%nat) = 10%Z
  /\ x_len (tab_at 1%nat (fun _ => 1%nat) (run (fun _ _ => true) 1600%nat) (g_cur (run (fun _ _ => true) 1600%nat))) = 512%nat
  /\ g_pc (run tex_grow 20%nat) 0%nat = PIdle /\ g_todo (run tex_grow 20%nat) 0%nat = [] /\ g_growths (run tex_grow 20%nat) = 0%Z.
Proof.
  repeat split; try (vm_compute; reflexivity).
  all: intros; cbn [In] in *; repeat (match goal with H : _ \/ _ |- _ => destruct H as [<-|H]; [vm_compute; first [discriminate | reflexivity]|] end); try contradiction.
Qed.

(* the extracted MapOf machine can always finish *)
Theorem x_machine_can_always_finish (o : oracle) (seeds : list N) (hint : Z) (todo : nat -> list xop_z) (sched ths : list nat) :
  (forall u, In u sched -> In u ths) ->
  let s := fst (x_run o seeds hint (x_machine_init seeds hint todo) sched) in
  exists cont, let r := x_run o seeds hint s cont in
    (forall t, In t ths -> g_pc (fst r) t = PIdle /\ g_todo (fst r) t = [])
    /\ (forall u, ~ In u ths -> g_pc (fst r) u = PStart /\ g_todo (fst r) u = g_todo s u).
Proof.
  intros Hs. unfold x_machine_init.
  apply (can_always_finish zeqd (hash_of o) idx_mapof tag_mapof (Z.to_nat entriesPerMapOfBucket) (seeds_of seeds)
           grow_needed_m shrink_policy_m probe_x nstripes_x (minlen_of_hint true hint) false (x_instance_hyps hint) x_instance_ghyp);
    [apply minlen_of_hint_pos | exact Hs].
Qed.

(* A reachable state that is calm for nobody: one slot per bucket, two buckets.  Thread 1 (Store 1) holds the lock of bucket 1
   and has passed its checks (PW_ChkTab); thread 0 (its fourth Store finds the chain of bucket 0 full, 3 entries > length 2)
   is the resizer, has copied bucket 0 and is blocked in PR_CpLock on bucket 1; thread 2 (Store 8) saw the flag and sits in
   the wait set of resizeCond (PT_Waiting).  A plain round robin of 60 rounds finishes everybody (can_always_finish
   guarantees that SOME finite schedule does, from every reachable state). *)
Definition mex_init : @xstate nat nat :=
  xinit 1%nat (fun _ => 0%N) (fun _ => 1%nat) 2%nat
    (fun t => match t with
              | 0 => [tex_st 0 10; tex_st 2 12; tex_st 4 14; tex_st 6 16] | 1 => [tex_st 1 11] | 2 => [tex_st 8 18] | _ => [] end)%nat.
Definition mex_state : @xstate nat nat := fst (tex_run tex_idx tex_grow mex_init ([1; 1; 1; 1] ++ repeat 0 60 ++ repeat 2 12)%nat).

Example can_finish_nonvacuous :
  (exists hn kt new, g_pc mex_state 0%nat = PR_CpLock hn kt 0%nat new 1%nat)
  /\ (exists cx, g_pc mex_state 1%nat = PW_ChkTab cx 0%nat)
  /\ (exists hn kt, g_pc mex_state 2%nat = PT_Waiting hn kt)
  /\ g_resizing mex_state = true
  /\ lock_of (tab_at 1%nat (fun _ => 1%nat) mex_state 0%nat) 1%nat = Some 1%nat
  /\ (let r := fst (tex_run tex_idx tex_grow mex_state (concat (repeat [0; 1; 2] 60))%nat) in
      forall t, In t [0; 1; 2]%nat -> g_pc r t = PIdle /\ g_todo r t = []).
Proof.
  split; [do 3 eexists; vm_compute; reflexivity|]. split; [eexists; vm_compute; reflexivity|].
  split; [do 2 eexists; vm_compute; reflexivity|]. split; [vm_compute; reflexivity|]. split; [vm_compute; reflexivity|].
  intros r t Ht. cbn [In] in Ht. repeat (destruct Ht as [<-|Ht]; [split; vm_compute; reflexivity|]). destruct Ht.
Qed.
