(* XS_vis.v -- what a lock-free reader can find in a published table of
   XMachineS (map.go), and where it changes.
     svis tb k v : slot of k's home chain with presence bit set, top hash that
       of k, key pointer k and value pointer v -- what Load k returns when it
       runs from its first LoadUint64 to the end without interference.
     vis_step_pc : a step of thread t changes svis of a published table only as
       a map update / removal of the key of t's own doCompute, only while t
       holds that key's bucket lock, and only at one store per call:
         insert  : QW_I3, the StorePointer of the KEY (the last of the three
                   stores: top hash + presence bit, value, key) -- before it the
                   reader's key comparison fails;   QW_N1 for a new bucket
         delete  : QW_D1, the StoreUint64 that clears the presence bit (the
                   FIRST of the three stores: a Load that starts after it skips
                   the slot)
         update  : QW_U1, the StorePointer of the value. *)
From CacheV Require Import Base SpecMap XMachineS.
From CacheV.proofs Require Import X_maps XS_inv XS_lock XS_own XS_count XS_cells.
From Coq Require Import NArith.
Local Open Scope nat_scope.

Section SVis.
  Context {K V : Type}.
  Variable eqd : forall a b : K, {a = b} + {a <> b}.
  Variable hash : K -> N -> N.
  Variable idx : N -> nat -> nat.
  Variable tophash : N -> N.
  Variable nslots : nat.
  Variable seeds : nat -> N.
  Variable grow_needed : nat -> Z -> bool.
  Variable shrink_policy : nat -> Z -> bool.
  Variable nstripes : nat -> nat.
  Variable minlen : nat.
  Variable grow_only : bool.

  Hypothesis Hslots : nslots <= 3.
  Hypothesis Hnslots : 0 < nslots.
  Hypothesis Htop : forall k sd, (tophash (hash k sd) < 1048576)%N.
  Hypothesis Hidx : forall h len, 0 < len -> idx h len < len.
  Hypothesis Hminlen : 0 < minlen.

  Notation mslot := (@mslot K V).
  Notation mtable := (@mtable K V).
  Notation mstate := (@mstate K V).
  Notation spc := (@spc K V).
  Notation empty_mslot := (@empty_mslot K V).
  Notation sstep_pc := (@sstep_pc K V eqd hash idx tophash nslots seeds grow_needed shrink_policy nstripes minlen grow_only).
  Notation sstep := (@sstep K V eqd hash idx tophash nslots seeds grow_needed shrink_policy nstripes minlen grow_only).
  Notation srun := (@srun K V eqd hash idx tophash nslots seeds grow_needed shrink_policy nstripes minlen grow_only).
  Notation stab_at := (@stab_at K V nslots nstripes).
  Notation shome := (@shome K V hash idx).
  Notation XL := (@XL K V hash idx nslots nstripes).
  Notation sholds := (@sholds K V hash idx nslots nstripes).
  Notation sholdsT := (@sholdsT K V hash idx nslots nstripes).
  Notation lock_of := (@lock_of K V nslots nstripes).
  Notation tabT := (@tabT K V nslots nstripes).
  Notation XB := (@XB K V hash idx tophash nslots nstripes).
  Notation XCS := (@XCS K V hash idx tophash nslots nstripes).
  Notation topent := (topent nslots).
  Notation ktop := (@ktop K V hash tophash).
  Notation kchain := (@kchain K V hash idx nslots nstripes).
  Notation ktops := (@ktops K V hash idx nslots nstripes).

  (* ---------------- what a reader finds in a chain ---------------- *)

  (* the reader accepts this slot for key k and returns v *)
  Definition pvis (sl : mslot) (e : bool * N) (th : N) (k : K) (v : V) : Prop :=
    ms_key sl = Some k /\ (exists id, ms_val sl = Some (v, id)) /\ e = (true, th).

  Definition cvis (c : list mslot) (tops : list (list (bool * N))) (th : N) (k : K) (v : V) : Prop :=
    exists pos, pos < length c /\ pvis (nth pos c empty_mslot) (topent tops pos) th k v.

  (* ... in a slot other than pos0 *)
  Definition ovis (c : list mslot) (tops : list (list (bool * N))) (th : N) (k : K) (v : V) (pos0 : nat) : Prop :=
    exists pos, pos <> pos0 /\ pos < length c /\ pvis (nth pos c empty_mslot) (topent tops pos) th k v.

  Definition svis (tb : mtable) (k : K) (v : V) : Prop :=
    cvis (schain_of tb (shome tb k)) (ctops tb (shome tb k)) (ktop tb k) k v.

  Lemma cvis_split c tops th k v pos0 : pos0 < length c ->
    (cvis c tops th k v <-> pvis (nth pos0 c empty_mslot) (topent tops pos0) th k v \/ ovis c tops th k v pos0).
  Proof.
    intros Hp. split.
    - intros [pos [H1 H2]]. destruct (Nat.eq_dec pos pos0) as [->|Hne]; [left; exact H2 | right; exists pos; auto].
    - intros [H|[pos [_ [H1 H2]]]]; [exists pos0; auto | exists pos; auto].
  Qed.

  Lemma cvis_upd c c' tops tops' th k v pos0 : pos0 < length c -> length c' = length c ->
    (forall pos, pos <> pos0 -> nth pos c' empty_mslot = nth pos c empty_mslot /\ topent tops' pos = topent tops pos) ->
    (cvis c' tops' th k v <-> pvis (nth pos0 c' empty_mslot) (topent tops' pos0) th k v \/ ovis c tops th k v pos0).
  Proof.
    intros Hp Hl Hoth. rewrite (cvis_split c' tops' th k v pos0) by lia.
    assert (E : ovis c' tops' th k v pos0 <-> ovis c tops th k v pos0).
    { split; intros [pos [H0 [H1 H2]]]; exists pos; (split; [exact H0|]); destruct (Hoth pos H0) as [A B].
      - rewrite Hl in H1. rewrite A, B in H2. auto.
      - rewrite <- Hl in H1. rewrite A, B. auto. }
    rewrite E. tauto.
  Qed.

  (* the store that is about to happen at program counter p, as a map update of table tab *)
  Definition lin_effect (p : spc) (tab : nat) : option (K * option V) :=
    match p with
    | QW_U1 cx tab' _ _ nv => if Nat.eq_dec tab' tab then Some (sc_k cx, Some nv) else None     (* StorePointer values[i] *)
    | QW_I3 cx tab' _ nv => if Nat.eq_dec tab' tab then Some (sc_k cx, Some nv) else None       (* StorePointer keys[i] *)
    | QW_N1 cx tab' nv => if Nat.eq_dec tab' tab then Some (sc_k cx, Some nv) else None         (* StorePointer b.next *)
    | QW_D1 cx tab' _ _ _ _ => if Nat.eq_dec tab' tab then Some (sc_k cx, None) else None       (* StoreUint64 eraseTopHash *)
    | _ => None
    end.

  Definition upd_rel (R : K -> V -> Prop) (e : option (K * option V)) (k : K) (v : V) : Prop :=
    match e with
    | Some (k0, Some nv) => (k = k0 /\ v = nv) \/ (k <> k0 /\ R k v)
    | Some (k0, None) => k <> k0 /\ R k v
    | None => R k v
    end.

  Lemma lin_holds T (p : spc) tab k0 e : lin_effect p tab = Some (k0, e) -> sholdsT T p = Some (tab, shome (tabT T tab) k0).
  Proof.
    destruct p; cbn [lin_effect XS_lock.sholdsT]; intros E; try discriminate E;
      (destruct (Nat.eq_dec tab0 tab) as [->|]; [|discriminate E]); inversion E; reflexivity.
  Qed.

  Lemma svis_same_bucket (tb tb' : mtable) k v : same_bucket (shome tb k) tb tb' -> (svis tb' k v <-> svis tb k v).
  Proof.
    intros [A [B C]]. unfold svis, XS_cells.ktop. rewrite (shome_ext hash idx _ _ k A B), B.
    unfold cellsw in C. injection C as C1 C2. rewrite C1, C2. tauto.
  Qed.


  Lemma svis_k0 T T' tab k k0 v : m_len (tabT T' tab) = m_len (tabT T tab) -> m_seed (tabT T' tab) = m_seed (tabT T tab) ->
    shome (tabT T tab) k = shome (tabT T tab) k0 ->
    (svis (tabT T' tab) k v <-> cvis (kchain T' tab k0) (ktops T' tab k0) (ktop (tabT T tab) k) k v).
  Proof.
    intros Hl Hs Hk. unfold svis, XS_cells.kchain, XS_cells.ktops, XS_cells.ktop.
    rewrite !(shome_ext hash idx _ _ _ Hl Hs), Hs, Hk. tauto.
  Qed.

  Lemma cvis_app c tops l (cell : mslot) n th k v : length c = length tops * nslots -> S n = nslots ->
    (cvis (c ++ cell :: repeat empty_mslot n) (tops ++ [l]) th k v <-> cvis c tops th k v \/ pvis cell (nth 0 l (false, 0%N)) th k v).
  Proof.
    intros Hsh Hn.
    assert (Hlen : length (c ++ cell :: repeat empty_mslot n) = length c + nslots) by (rewrite app_length; cbn [length]; rewrite repeat_length; lia).
    split.
    - intros [pos [H1 H2]]. rewrite Hlen in H1. destruct (Nat.lt_ge_cases pos (length c)) as [L|L].
      + left. exists pos. split; [exact L|]. rewrite app_nth1 in H2 by exact L. rewrite topent_app in H2 by (first [assumption | rewrite <- Hsh; exact L]). exact H2.
      + right. assert (Ei : exists i, pos = length c + i /\ i < nslots) by (exists (pos - length c); lia). destruct Ei as [i [-> Hi]].
        rewrite app_nth2 in H2 by lia. replace (length c + i - length c) with i in H2 by lia.
        destruct i as [|i].
        * cbn [nth] in H2. rewrite Hsh, Nat.add_0_r in H2. replace (length tops * nslots) with (length tops * nslots + 0) in H2 by lia.
          rewrite topent_app_new in H2 by (first [assumption | lia]). exact H2.
        * exfalso. cbn [nth] in H2. destruct H2 as [H2 _].
          destruct (Nat.lt_ge_cases i n); [rewrite nth_repeat in H2 | rewrite nth_overflow in H2 by (rewrite repeat_length; assumption)]; discriminate H2.
    - intros [[pos [H1 H2]]|H].
      + exists pos. split; [rewrite Hlen; lia|]. rewrite app_nth1 by exact H1. rewrite topent_app by (first [assumption | rewrite <- Hsh; exact H1]). exact H2.
      + exists (length c). split; [rewrite Hlen; lia|]. rewrite app_nth2 by lia. rewrite Nat.sub_diag. cbn [nth].
        rewrite Hsh. replace (length tops * nslots) with (length tops * nslots + 0) by lia. rewrite topent_app_new by (first [assumption | lia]). exact H.
  Qed.

  (* no other slot holds the key of slot pos0 *)
  Lemma uniq_ovis (c : list mslot) tops th k0 v pos0 : uniq c -> pos0 < length c -> ms_key (nth pos0 c empty_mslot) = Some k0 ->
    ~ ovis c tops th k0 v pos0.
  Proof. intros Hu Hp Hk [pos [Hne [H1 [H2 _]]]]. apply Hne. apply (Hu pos pos0 k0 H1 Hp H2 Hk). Qed.

  Lemma absent_ovis (c : list mslot) tops th k0 v pos0 : absent c k0 -> ~ ovis c tops th k0 v pos0.
  Proof. intros Ha [pos [_ [H1 [H2 _]]]]. apply (Ha pos H1 H2). Qed.


  Lemma cvis_slot c tops th k v pos g : pos < length c ->
    (cvis (supd_nth c pos g) tops th k v <-> pvis (g (nth pos c empty_mslot)) (topent tops pos) th k v \/ ovis c tops th k v pos).
  Proof.
    intros Hp. rewrite (cvis_upd c (supd_nth c pos g) tops tops th k v pos Hp (supd_nth_length _ _ _)).
    - rewrite nth_supd_nth. destruct (Nat.eq_dec pos pos) as [_|Hc]; [|exfalso; apply Hc; reflexivity].
      pose proof Hp as Hp'. apply Nat.ltb_lt in Hp'. rewrite Hp'. tauto.
    - intros pos' Hne. split; [|reflexivity]. rewrite nth_supd_nth. destruct (Nat.eq_dec pos' pos); [contradiction | reflexivity].
  Qed.

  Lemma cvis_ent c tops tops' th k v pos e' : pos < length c ->
    (forall pos', topent tops' pos' = if Nat.eq_dec pos' pos then e' else topent tops pos') ->
    (cvis c tops' th k v <-> pvis (nth pos c empty_mslot) e' th k v \/ ovis c tops th k v pos).
  Proof.
    intros Hp Ht. rewrite (cvis_upd c c tops tops' th k v pos Hp eq_refl).
    - rewrite Ht. destruct (Nat.eq_dec pos pos) as [_|Hc]; [|exfalso; apply Hc; reflexivity]. tauto.
    - intros pos' Hne. split; [reflexivity|]. rewrite Ht. destruct (Nat.eq_dec pos' pos); [contradiction | reflexivity].
  Qed.

  Lemma some_fst_v {A B} (g : A * B) a b : Some g = Some (a, b) -> a = fst g.
  Proof. intros H. inversion H. reflexivity. Qed.

  (* ---------------- the steps of the thread that holds the bucket lock of k's home chain ---------------- *)

  Lemma vis_holder s t p s' ls tab k v : XB s -> h_pc s t = p -> sstep_pc s t p = Some (s', ls) ->
    sholds s p = Some (tab, shome (tabT (h_tabs s) tab) k) ->
    (svis (tabT (h_tabs s') tab) k v <-> upd_rel (svis (tabT (h_tabs s) tab)) (lin_effect p tab) k v).
  Proof.
    intros [HI [HS [HT [HX HC]]]] Hp Hs Hh. pose proof (xcs_pc _ _ _ _ _ s HC t) as Hf. rewrite Hp in Hf.
    pose proof (sstep_pc_eff eqd hash idx tophash nslots seeds grow_needed shrink_policy nstripes minlen grow_only
                  Hslots Hidx Hminlen s t p s' ls HS Hp Hs) as HE.
    assert (Hh0 : sholds s (h_pc s t) = Some (tab, shome (tabT (h_tabs s) tab) k)) by (rewrite Hp; exact Hh).
    destruct (holder_facts hash idx tophash nslots seeds grow_needed shrink_policy nstripes Hslots Hnslots s t tab _ HS HT HC Hh0) as (Htab & Hle & Hb & Hch & Hok & Hwg). rewrite Hp in Hch.
    destruct (se_ext _ _ _ _ _ _ _ HE) as [_ X]. destruct (X tab Htab) as [Hl Hsd]. clear X.
    destruct Hch as [[Hsh1 Hsh2] [Hun Hsl]].
    unfold XS_lock.sholds in Hh.
    destruct p; cbn [XS_lock.sholdsT] in Hh; try discriminate Hh; injection Hh as Et Hkb; subst tab0;
      cbn [XMachineS.sstep_pc] in Hs; cbv zeta in Hs;
      repeat match type of Hs with context [match ?x with _ => _ end] => destruct x eqn:? end;
      try discriminate Hs; apply some_fst_v in Hs; subst s'; cbn [pcfact lin_effect upd_rel] in *.
    all: rewrite ?htabs_goto, ?htabs_visits in *; cbn [h_tabs sset_tab sset_flags spush_tab sbump] in *.
    all: try tauto.
    all: change (stab_at s tab) with (tabT (h_tabs s) tab) in *.
    all: try (destruct (Nat.eq_dec tab tab) as [_|Hc]; [|exfalso; apply Hc; reflexivity]); cbn [upd_rel].
    all: try (rewrite (svis_k0 (h_tabs s) _ tab k (sc_k cx) v Hl Hsd (eq_sym Hkb));
              rewrite (svis_k0 (h_tabs s) (h_tabs s) tab k (sc_k cx) v eq_refl eq_refl (eq_sym Hkb))).
    - (* unlockBucket of a Range *)
      subst b. apply svis_same_bucket. rewrite tabT_supd_same by exact Htab. split; [reflexivity | split; [reflexivity|]].
      apply (cellsw_set_lock nslots). cbn [with_lock w_top]. destruct Hf as [F1 _]. rewrite F1, (ctops_nth nslots).
      unfold ctops in Hsh1. destruct (swords_of (tabT (h_tabs s) tab) (shome (tabT (h_tabs s) tab) k)); [exfalso; apply Hsh1; reflexivity | reflexivity].
    - subst b. apply svis_same_bucket. rewrite tabT_supd_same by exact Htab. split; [reflexivity | split; [reflexivity|]].
      apply (cellsw_set_lock nslots). cbn [with_lock w_top]. destruct Hf as [F1 _]. rewrite F1, (ctops_nth nslots).
      unfold ctops in Hsh1. destruct (swords_of (tabT (h_tabs s) tab) (shome (tabT (h_tabs s) tab) k)); [exfalso; apply Hsh1; reflexivity | reflexivity].
    - (* D1: the presence bit is cleared -- the removal *)
      rewrite <- Hkb in *. fold (kchain (h_tabs s) tab (sc_k cx)) in *. fold (ktops (h_tabs s) tab (sc_k cx)) in *.
      destruct Hok as [Hok1 [Hok2 _]].
      destruct Hf as [[F1 [F2 [[id F3] F4]]] [F5 F6]].
      assert (Hbi : pos / nslots < length (ktops (h_tabs s) tab (sc_k cx))) by (apply Nat.div_lt_upper_bound; lia).
      destruct (kfacts_ent hash idx tophash nslots nstripes Hslots Hnslots (h_tabs s) tab (sc_k cx) pos (erase_top w (pos mod nslots))
                           (fun e => (false, snd e)) Htab ltac:(lia) Hbi) as [E1 [E2 E3]];
        [rewrite <- F5; apply (proj1 F6) | cbn [erase_top w_top]; rewrite F5; reflexivity |].
      rewrite E1, (cvis_ent _ _ _ _ _ _ pos _ F1 E3), (cvis_split _ _ _ _ _ pos F1).
      split.
      + intros [[_ [_ A]]|A]; [discriminate A|]. split; [intros ->; eapply uniq_ovis; eassumption | right; exact A].
      + intros [Hne [[A _]|A]]; [rewrite F2 in A; inversion A; congruence | right; exact A].
    - (* D2, D3: the presence bit is clear *)
      rewrite <- Hkb in *. fold (kchain (h_tabs s) tab (sc_k cx)) in *. fold (ktops (h_tabs s) tab (sc_k cx)) in *.
      destruct Hok as [Hok1 [Hok2 _]].
      destruct Hf as [F1 [F2 [F3 F4]]].
      destruct (kfacts_slot hash idx tophash nslots nstripes (h_tabs s) tab (sc_k cx) pos (fun sl => {| ms_key := ms_key sl; ms_val := None |}) Htab Hb) as [E1 [E2 E3]].
      rewrite E1, E3, (cvis_slot _ _ _ _ _ pos _ F1), (cvis_split _ _ _ _ _ pos F1).
      split; (intros [[_ [_ A]]|A]; [exfalso; unfold ent_clear in F4; rewrite A in F4; discriminate F4 | right; exact A]).
    -
      rewrite <- Hkb in *. fold (kchain (h_tabs s) tab (sc_k cx)) in *. fold (ktops (h_tabs s) tab (sc_k cx)) in *.
      destruct Hok as [Hok1 [Hok2 _]].
      destruct Hf as [F1 [F2 [F3 F4]]].
      destruct (kfacts_slot hash idx tophash nslots nstripes (h_tabs s) tab (sc_k cx) pos (fun sl => {| ms_key := None; ms_val := ms_val sl |}) Htab Hb) as [E1 [E2 E3]].
      rewrite E1, E3, (cvis_slot _ _ _ _ _ pos _ F1), (cvis_split _ _ _ _ _ pos F1).
      split; (intros [[_ [_ A]]|A]; [exfalso; unfold ent_clear in F4; rewrite A in F4; discriminate F4 | right; exact A]).
    -
      rewrite <- Hkb in *. fold (kchain (h_tabs s) tab (sc_k cx)) in *. fold (ktops (h_tabs s) tab (sc_k cx)) in *.
      destruct Hok as [Hok1 [Hok2 _]].
      destruct Hf as [F1 [F2 [F3 F4]]].
      destruct (kfacts_slot hash idx tophash nslots nstripes (h_tabs s) tab (sc_k cx) pos (fun sl => {| ms_key := None; ms_val := ms_val sl |}) Htab Hb) as [E1 [E2 E3]].
      rewrite E1, E3, (cvis_slot _ _ _ _ _ pos _ F1), (cvis_split _ _ _ _ _ pos F1).
      split; (intros [[_ [_ A]]|A]; [exfalso; unfold ent_clear in F4; rewrite A in F4; discriminate F4 | right; exact A]).
    -
      rewrite <- Hkb in *. fold (kchain (h_tabs s) tab (sc_k cx)) in *. fold (ktops (h_tabs s) tab (sc_k cx)) in *.
      destruct Hok as [Hok1 [Hok2 _]].
      destruct Hf as [F1 [F2 [F3 F4]]].
      destruct (kfacts_slot hash idx tophash nslots nstripes (h_tabs s) tab (sc_k cx) pos (fun sl => {| ms_key := None; ms_val := ms_val sl |}) Htab Hb) as [E1 [E2 E3]].
      rewrite E1, E3, (cvis_slot _ _ _ _ _ pos _ F1), (cvis_split _ _ _ _ _ pos F1).
      split; (intros [[_ [_ A]]|A]; [exfalso; unfold ent_clear in F4; rewrite A in F4; discriminate F4 | right; exact A]).
    (* U1: the value pointer -- the update *)
    - rewrite <- Hkb in *. fold (kchain (h_tabs s) tab (sc_k cx)) in *. fold (ktops (h_tabs s) tab (sc_k cx)) in *.
      destruct Hok as [Hok1 [Hok2 _]].
      destruct Hf as [F1 [F2 [[id F3] F4]]].
      destruct (kfacts_slot hash idx tophash nslots nstripes (h_tabs s) tab (sc_k cx) pos (fun sl => {| ms_key := ms_key sl; ms_val := Some (nv, h_alloc s) |}) Htab Hb) as [E1 [E2 E3]].
      rewrite E1, E3, (cvis_slot _ _ _ _ _ pos _ F1), (cvis_split _ _ _ _ _ pos F1).
      split.
      + intros [[A [[id' B] C]]|A].
        * left. cbn [ms_key ms_val] in A, B. rewrite F2 in A. inversion A. inversion B. auto.
        * right. split; [intros ->; eapply uniq_ovis; eassumption | right; exact A].
      + intros [[-> ->]|[Hne [[A _]|A]]].
        * left. split; [exact F2|]. split; [exists (h_alloc s); reflexivity | symmetry; exact F4].
        * rewrite F2 in A. inversion A. congruence.
        * right. exact A.
    - rewrite <- Hkb in *. fold (kchain (h_tabs s) tab (sc_k cx)) in *. fold (ktops (h_tabs s) tab (sc_k cx)) in *.
      destruct Hok as [Hok1 [Hok2 _]].
      destruct Hf as [F1 [F2 [[id F3] F4]]].
      destruct (kfacts_slot hash idx tophash nslots nstripes (h_tabs s) tab (sc_k cx) pos (fun sl => {| ms_key := ms_key sl; ms_val := Some (nv, h_alloc s) |}) Htab Hb) as [E1 [E2 E3]].
      rewrite E1, E3, (cvis_slot _ _ _ _ _ pos _ F1), (cvis_split _ _ _ _ _ pos F1).
      split.
      + intros [[A [[id' B] C]]|A].
        * left. cbn [ms_key ms_val] in A, B. rewrite F2 in A. inversion A. inversion B. auto.
        * right. split; [intros ->; eapply uniq_ovis; eassumption | right; exact A].
      + intros [[-> ->]|[Hne [[A _]|A]]].
        * left. split; [exact F2|]. split; [exists (h_alloc s); reflexivity | symmetry; exact F4].
        * rewrite F2 in A. inversion A. congruence.
        * right. exact A.
    - (* I1: presence bit and top hash, the key is still nil *)
      rewrite <- Hkb in *. fold (kchain (h_tabs s) tab (sc_k cx)) in *. fold (ktops (h_tabs s) tab (sc_k cx)) in *.
      destruct Hok as [Hok1 [Hok2 _]].
      destruct Hf as [[F1 [F2 [F3 F4]]] [Fa [F6 F7]]].
      assert (Hbi : pos / nslots < length (ktops (h_tabs s) tab (sc_k cx))) by (apply Nat.div_lt_upper_bound; lia).
      destruct (kfacts_ent hash idx tophash nslots nstripes Hslots Hnslots (h_tabs s) tab (sc_k cx) pos
                           (store_top w (pos mod nslots) (tophash (hash (sc_k cx) (m_seed (tabT (h_tabs s) tab)))))
                           (fun _ => (true, ktop (tabT (h_tabs s) tab) (sc_k cx))) Htab ltac:(lia) Hbi) as [E1 [E2 E3]];
        [rewrite <- F6; apply (proj1 F7) | cbn [store_top w_top]; rewrite F6; reflexivity |].
      rewrite E1, (cvis_ent _ _ _ _ _ _ pos _ F1 E3), (cvis_split _ _ _ _ _ pos F1).
      split; (intros [[A _]|A]; [exfalso; rewrite F2 in A; discriminate A | right; exact A]).
    - (* I2: the value pointer, the key is still nil *)
      rewrite <- Hkb in *. fold (kchain (h_tabs s) tab (sc_k cx)) in *. fold (ktops (h_tabs s) tab (sc_k cx)) in *.
      destruct Hok as [Hok1 [Hok2 _]].
      destruct Hf as [[F1 [F2 [F3 F4]]] Fa].
      destruct (kfacts_slot hash idx tophash nslots nstripes (h_tabs s) tab (sc_k cx) pos (fun sl => {| ms_key := ms_key sl; ms_val := Some (nv, h_alloc s) |}) Htab Hb) as [E1 [E2 E3]].
      rewrite E1, E3, (cvis_slot _ _ _ _ _ pos _ F1), (cvis_split _ _ _ _ _ pos F1).
      split; (intros [[A _]|A]; [exfalso; cbn [ms_key] in A; rewrite F2 in A; discriminate A | right; exact A]).
    - (* I3: the key pointer -- the insert *)
      rewrite <- Hkb in *. fold (kchain (h_tabs s) tab (sc_k cx)) in *. fold (ktops (h_tabs s) tab (sc_k cx)) in *.
      destruct Hok as [Hok1 [Hok2 _]].
      destruct Hf as [[F1 [F2 [[id F3] F4]]] Fa].
      destruct (kfacts_slot hash idx tophash nslots nstripes (h_tabs s) tab (sc_k cx) pos (fun sl => {| ms_key := Some (sc_k cx); ms_val := ms_val sl |}) Htab Hb) as [E1 [E2 E3]].
      rewrite E1, E3, (cvis_slot _ _ _ _ _ pos _ F1), (cvis_split _ _ _ _ _ pos F1).
      split.
      + intros [[A [[id' B] C]]|A].
        * left. cbn [ms_key ms_val] in A, B. inversion A. rewrite F3 in B. inversion B. auto.
        * right. split; [intros ->; eapply absent_ovis; eassumption | right; exact A].
      + intros [[-> ->]|[Hne [[A _]|A]]].
        * left. split; [reflexivity|]. split; [exists id; exact F3 | symmetry; exact F4].
        * rewrite F2 in A. discriminate A.
        * right. exact A.
    - (* N1: a new bucket with the pair is linked -- the insert *)
      rewrite <- Hkb in *. fold (kchain (h_tabs s) tab (sc_k cx)) in *. fold (ktops (h_tabs s) tab (sc_k cx)) in *.
      destruct Hok as [Hok1 [Hok2 _]].
      match goal with |- cvis (kchain ?TT _ _) _ _ _ _ <-> _ => set (T1 := TT) in * end.
      set (cell := {| ms_key := Some (sc_k cx); ms_val := Some (nv, h_alloc s) |}).
      set (w' := store_top (empty_bword nslots) 0 (tophash (hash (sc_k cx) (m_seed (tabT (h_tabs s) tab))))).
      assert (Eh : shome (tabT T1 tab) (sc_k cx) = shome (tabT (h_tabs s) tab) (sc_k cx)) by (apply (shome_ext hash idx); assumption).
      assert (E1 : kchain T1 tab (sc_k cx) = kchain (h_tabs s) tab (sc_k cx) ++ cell :: repeat empty_mslot (nslots - 1)).
      { unfold XS_cells.kchain. rewrite Eh. unfold T1. rewrite (tabT_supd_same nslots nstripes) by exact Htab.
        unfold schain_of, sset_words, sset_chain. cbn [m_chains]. rewrite nth_supd_nth.
        destruct (Nat.eq_dec _ _) as [_|Hc]; [|exfalso; apply Hc; reflexivity]. unfold m_len in Hb. pose proof Hb as Hb'. apply Nat.ltb_lt in Hb'. rewrite Hb'. reflexivity. }
      assert (E2 : ktops T1 tab (sc_k cx) = ktops (h_tabs s) tab (sc_k cx) ++ [w_top w']).
      { unfold XS_cells.ktops. rewrite Eh. unfold T1. rewrite (tabT_supd_same nslots nstripes) by exact Htab.
        unfold ctops, swords_of, sset_words, sset_chain. cbn [m_words]. rewrite nth_supd_nth.
        destruct (Nat.eq_dec _ _) as [_|Hc]; [|exfalso; apply Hc; reflexivity]. rewrite Hok2. pose proof Hb as Hb'. apply Nat.ltb_lt in Hb'. rewrite Hb'.
        rewrite map_app. reflexivity. }
      rewrite E1, E2, (cvis_app _ _ _ _ (nslots - 1)) by (try exact Hsh2; lia).
      assert (E0 : nth 0 (w_top w') (false, 0%N) = (true, ktop (tabT (h_tabs s) tab) (sc_k cx))).
      { unfold w'. cbn [store_top empty_bword w_top]. destruct nslots; [lia | reflexivity]. }
      rewrite E0. split.
      + intros [[pos [A1 A2]]|[A [[id' B] C]]].
        * right. split; [intros ->; apply (Hf pos A1 (proj1 A2)) | exists pos; auto].
        * left. cbn [cell ms_key ms_val] in A, B. inversion A. inversion B. auto.
      + intros [[-> ->]|[Hne A]]; [right | left; exact A].
        split; [reflexivity|]. split; [exists (h_alloc s); reflexivity | reflexivity].
  Qed.


  (* ---------------- every step ---------------- *)

  Lemma upd_rel_other (R : K -> V -> Prop) k0 e k v : k <> k0 -> (upd_rel R (Some (k0, e)) k v <-> R k v).
  Proof. intros Hne. destruct e as [nv|]; cbn [upd_rel]; tauto. Qed.

  Lemma holds_dec (o : option (nat * nat)) tab b : {o = Some (tab, b)} + {o <> Some (tab, b)}.
  Proof. decide equality. decide equality; apply Nat.eq_dec. Qed.

  (* what a reader finds in a published table changes only at the linearization store of the writer that holds
     the bucket lock, and then exactly as an update / removal of that writer's key *)
  Theorem vis_step_pc s t p s' ls tab k v : XB s -> h_pc s t = p -> sstep_pc s t p = Some (s', ls) -> tab <= h_cur s ->
    (svis (tabT (h_tabs s') tab) k v <-> upd_rel (svis (tabT (h_tabs s) tab)) (lin_effect p tab) k v).
  Proof.
    intros HB Hp Hs Hle.
    destruct (holds_dec (sholds s p) tab (shome (tabT (h_tabs s) tab) k)) as [Eh|Hnh].
    - apply (vis_holder s t p s' ls tab k v HB Hp Hs Eh).
    - destruct HB as [HI [HS [HT [HX HC]]]].
      pose proof (same_bucket_step eqd hash idx tophash nslots seeds grow_needed shrink_policy nstripes minlen grow_only Hslots Hnslots Hidx Hminlen
                    s t p s' ls tab _ HS HT HC Hp Hs Hle Hnh) as Hsb.
      rewrite (svis_same_bucket _ _ k v Hsb).
      destruct (lin_effect p tab) as [[k0 e]|] eqn:El; [|reflexivity].
      symmetry. apply upd_rel_other. intros ->. apply Hnh. apply (lin_holds _ _ _ _ _ El).
  Qed.


  Lemma lin_start (o : @sop K V) tab : lin_effect (sstart_pc o) tab = None.
  Proof. destruct o; cbn [sstart_pc]; try reflexivity. unfold sstart_cx. destruct (sc_lie _); reflexivity. Qed.

  (* the same for the step of a thread, invocation included *)
  Theorem vis_sstep s t s' ls tab k v : XB s -> sstep s t = Some (s', ls) -> tab <= h_cur s ->
    (svis (tabT (h_tabs s') tab) k v <-> upd_rel (svis (tabT (h_tabs s) tab)) (lin_effect (h_pc s t) tab) k v).
  Proof.
    intros HB Hs Hle. unfold XMachineS.sstep in Hs.
    destruct (h_pc s t) eqn:Hp; try (rewrite <- Hp; apply (vis_step_pc s t _ s' ls tab k v HB eq_refl); [rewrite Hp; exact Hs | exact Hle]).
    destruct (h_todo s t) as [|o rest]; [discriminate|].
    pose proof (invoke_XB hash idx tophash nslots nstripes s t o rest Hp HB) as HB1.
    change (match sstep_pc (XS_count.sinvoke s t o rest) t (sstart_pc o) with
            | Some (s2, ls0) => Some (s2, SInv t o :: ls0)
            | None => Some (XS_count.sinvoke s t o rest, [SInv t o])
            end = Some (s', ls)) in Hs.
    cbn [lin_effect upd_rel].
    destruct (sstep_pc (XS_count.sinvoke s t o rest) t (sstart_pc o)) as [[s2 ls0]|] eqn:E2.
    - inversion Hs; subst s2 ls.
      assert (Epc : h_pc (XS_count.sinvoke s t o rest) t = sstart_pc o) by (cbn [XS_count.sinvoke h_pc]; destruct (Nat.eq_dec t t); congruence).
      pose proof (vis_step_pc (XS_count.sinvoke s t o rest) t _ s' ls0 tab k v HB1 Epc E2 Hle) as H. rewrite lin_start in H. exact H.
    - inversion Hs; subst s'. reflexivity.
  Qed.

  (* a step that changes what readers find under k in a published table is a linearization store of the
     stepping thread on k, and that thread holds the bucket lock of k's home chain *)
  Theorem vis_change_owner s t s' ls tab k v : XB s -> sstep s t = Some (s', ls) -> tab <= h_cur s ->
    ~ (svis (tabT (h_tabs s') tab) k v <-> svis (tabT (h_tabs s) tab) k v) ->
    exists e, lin_effect (h_pc s t) tab = Some (k, e) /\ lock_of s tab (shome (tabT (h_tabs s) tab) k) = Some t.
  Proof.
    intros HB Hs Hle Hch. pose proof (vis_sstep s t s' ls tab k v HB Hs Hle) as H.
    destruct (lin_effect (h_pc s t) tab) as [[k0 e]|] eqn:El; [|exfalso; apply Hch; exact H].
    destruct (eqd k k0) as [->|Hne].
    - exists e. split; [reflexivity|]. destruct HB as [_ [HS _]]. apply (xl_lockA _ _ _ _ s HS). apply (lin_holds _ _ _ _ _ El).
    - exfalso. apply Hch. rewrite H. apply upd_rel_other. exact Hne.
  Qed.

  (* the three kinds of linearization store, read off the program counter *)
  Theorem lin_kinds (p : spc) tab k e : lin_effect p tab = Some (k, e) ->
    (exists cx pos old nv, p = QW_U1 cx tab pos old nv /\ sc_k cx = k /\ e = Some nv)          (* update: StorePointer values[i] *)
    \/ (exists cx pos nv, p = QW_I3 cx tab pos nv /\ sc_k cx = k /\ e = Some nv)               (* insert: StorePointer keys[i] *)
    \/ (exists cx nv, p = QW_N1 cx tab nv /\ sc_k cx = k /\ e = Some nv)                       (* insert: StorePointer b.next *)
    \/ (exists cx pos old w ne, p = QW_D1 cx tab pos old w ne /\ sc_k cx = k /\ e = None).     (* delete: StoreUint64 eraseTopHash *)
  Proof.
    destruct p; cbn [lin_effect]; intros E; try discriminate E; (destruct (Nat.eq_dec tab0 tab) as [->|]; [|discriminate E]); inversion E; subst.
    - right. right. right. exists cx, pos, old, w, ne. auto.
    - left. exists cx, pos, old, nv. auto.
    - right. left. exists cx, pos, nv. auto.
    - right. right. left. exists cx, nv. auto.
  Qed.

  (* every reachable state *)
  Theorem reachable_vis len0 todo sched t s' ls tab k v : 0 < len0 ->
    let s := fst (srun (sinit nslots seeds nstripes len0 todo) sched) in
    sstep s t = Some (s', ls) -> tab <= h_cur s ->
    (svis (tabT (h_tabs s') tab) k v <-> upd_rel (svis (tabT (h_tabs s) tab)) (lin_effect (h_pc s t) tab) k v).
  Proof.
    intros Hl s Hs Hle. apply (vis_sstep s t s' ls tab k v); [|exact Hs | exact Hle].
    apply (reachable_XB eqd hash idx tophash nslots seeds grow_needed shrink_policy nstripes minlen grow_only Hslots Hnslots Htop Hidx Hminlen len0 todo sched Hl).
  Qed.

  (* a key is visible with at most one value, in a published table *)
  Theorem svis_fun s tab k v v' : XB s -> tab <= h_cur s -> svis (tabT (h_tabs s) tab) k v -> svis (tabT (h_tabs s) tab) k v' -> v = v'.
  Proof.
    intros [HI [HS [HT [HX HC]]]] Hle [p1 [A1 [A2 [[i1 A3] A4]]]] [p2 [B1 [B2 [[i2 B3] B4]]]].
    assert (Hb : shome (tabT (h_tabs s) tab) k < m_len (tabT (h_tabs s) tab)).
    { apply (shome_lt hash idx Hidx). apply (tb_ok_tabT nslots nstripes Hslots). apply (xl_tabs _ _ _ _ s HS). }
    destruct (xcs_ch _ _ _ _ _ s HC tab _ Hle Hb) as [_ [Hu _]]. pose proof (Hu p1 p2 k A1 B1 A2 B2). subst p2. congruence.
  Qed.

End SVis.
