(* C05_spec.v -- what the sequential specification says about racing
   get-or-create calls and chains of read-modify-write calls on one key. *)
From CacheV Require Import Base SpecMap Client Ops SpecTTL.
From CacheV.gen Require Import Params.

Section C05.
  Context {K V : Type}.
  Variable eqd : forall a b : K, {a = b} + {a <> b}.
  Variable zero : V.
  Notation cop := (cop K V).
  Notation cres := (cres K V).

  Definition tspec' (s : cstate K V) (o : cop) (r : cres) (s' : cstate K V) : Prop :=
    spec_ok eqd zero s o r /\ s' = spec_next eqd zero s o.

  (* an item armed now is live now (int64 clock and durations) *)
  Lemma armed_live dflt now d :
    0 <= now -> in_int64 now -> in_int64 dflt -> in_int64 d ->
    expiredWithNow now {| iv := zero; ie := spec_expiration dflt now d |} = false.
  Proof.
    intros Hn Hin Hdf Hd. unfold expiredWithNow, spec_expiration. cbn [ie].
    set (d' := if d =? DefaultExpiration then dflt else d).
    assert (Hd' : in_int64 d') by (unfold d'; destruct (d =? DefaultExpiration); assumption).
    destruct (0 <? d') eqn:E; [|reflexivity].
    apply Z.ltb_lt in E. unfold in_int64, two63 in *. unfold wrap64, two63, two64.
    destruct (Z_lt_dec (now + d') 9223372036854775808) as [Hs|Hb].
    - rewrite Z.mod_small by lia. apply andb_false_iff. right. apply Z.ltb_ge. lia.
    - assert (Em : (now + d' + 9223372036854775808) mod 18446744073709551616 = now + d' - 9223372036854775808).
      { rewrite <- (Z.mod_small (now + d' - 9223372036854775808) 18446744073709551616) by lia.
        rewrite <- (Z_mod_plus_full (now + d' - 9223372036854775808) 1 18446744073709551616). f_equal. lia. }
      rewrite Em. apply andb_false_iff. left. apply Z.ltb_ge. lia.
  Qed.

  Definition is_getor (k : K) (o : cop) : Prop :=
    match o with
    | OGetOrSet k' _ d | OGetOrCompute k' _ d => k' = k /\ in_int64 d
    | _ => False
    end.

  Definition getor_val (o : cop) : V :=
    match o with OGetOrSet _ v _ | OGetOrCompute _ v _ => v | _ => zero end.

  (* a sequential run of the specification over a list of (op, result) *)
  Inductive srun : cstate K V -> list (cop * cres) -> cstate K V -> Prop :=
  | srun_nil s : srun s [] s
  | srun_cons s o r s' l s'' : tspec' s o r s' -> srun s' l s'' -> srun s ((o, r) :: l) s''.

  Lemma vw_arm_same (s : cstate K V) k v d :
    0 <= st_now s -> in_int64 (st_now s) -> in_int64 (st_dflt s) -> in_int64 d ->
    vw eqd (set_L s (insert eqd k (arm s v d) (st_map s))) k = Some (arm s v d).
  Proof.
    intros H1 H2 H3 H4. unfold vw, view. cbn [st_map st_now set_L]. rewrite lookup_insert_eq.
    pose proof (armed_live (st_dflt s) (st_now s) d H1 H2 H3 H4) as Hl.
    unfold expiredWithNow, arm in *. cbn [ie] in *. rewrite Hl. reflexivity.
  Qed.

  (* once the key is live, every further get-or-create loads that very value and changes nothing *)
  Lemma getor_all_load k : forall l (s s' : cstate K V) i,
    vw eqd s k = Some i -> Forall (fun or => is_getor k (fst or)) l -> srun s l s' ->
    Forall (fun or => snd or = CVal (iv i) true) l /\ s' = s.
  Proof.
    induction l as [|[o r] l IH]; intros s s' i Hv Hf Hr; inversion Hr; subst; [auto|].
    inversion Hf as [|? ? Ho Hf']; subst. cbn in Ho.
    match goal with H : tspec' _ _ _ _ |- _ => destruct H as [Hok ->] end.
    assert (E : spec_next eqd zero s o = s /\ r = CVal (iv i) true).
    { destruct o; cbn in Ho; try contradiction; destruct Ho as [-> _]; cbn in Hok |- *; rewrite Hv in *; auto. }
    destruct E as [E ->]. rewrite E in *.
    match goal with H : srun s l _ |- _ => destruct (IH _ _ _ Hv Hf' H) as [Ha ->] end.
    split; [constructor; auto | reflexivity].
  Qed.

  (* C05: among get-or-create calls racing on an absent (or expired) key with no
     other writer, in ANY order in which they may take effect: the first one
     stores and reports loaded=false; every other one reports that value, loaded=true *)
  Theorem single_winner k (s s' : cstate K V) o1 r1 l :
    0 <= st_now s -> in_int64 (st_now s) -> in_int64 (st_dflt s) ->
    vw eqd s k = None ->
    is_getor k o1 -> Forall (fun or => is_getor k (fst or)) l ->
    srun s ((o1, r1) :: l) s' ->
    r1 = CVal (getor_val o1) false
    /\ Forall (fun or => snd or = CVal (getor_val o1) true) l.
  Proof.
    intros H1 H2 H3 Hv Ho Hf Hr. inversion Hr; subst.
    match goal with H : tspec' _ _ _ _ |- _ => destruct H as [Hok ->] end.
    destruct o1; cbn in Ho; try contradiction; destruct Ho as [-> Hd]; cbn in Hok; rewrite Hv in Hok; subst r1;
      (split; [reflexivity|]); cbn [spec_next] in *; rewrite Hv in *;
      match goal with H : srun _ l _ |- _ =>
        destruct (getor_all_load k l _ _ (arm s v d) (vw_arm_same s k v d H1 H2 H3 Hd) Hf H) as [Ha _]; exact Ha end.
  Qed.

End C05.
