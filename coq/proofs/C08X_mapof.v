(* C08X_mapof.v -- C08 at the cache level over XMachine (MapOf): Count, called when no cache
   call is in progress, answers the exact number of keys physically present.

   The product machine of CX_product.v over XMachine with Size run ON THE MACHINE ([sup8]: every
   map call but the snapshot; [back8]: the machine's XRNat answer read back as RSize).  Any
   cache calls at all (not only C02's list), any number of threads, any schedule, from the
   empty cache; the clock constant (Conc.v's phase).

   [cache_count_quiescent_over_xmachine]: in every reachable state of the product machine in
   which no thread is inside a cache call and thread t's next call is Count, thread t run
   alone answers CNat n, n = the number of pairs of the machine's current table
   ([X_count.tpairs]: a duplicate-free enumeration of exactly what lock-free readers can find
   there = what a Range visits) = live entries + expired entries not yet removed; in
   particular n >= the number of live entries.
   Route: CX_product's prophecy with the STATES (C08X_product.prophecy_state) puts the map
   machine inside the product state on a run with todo lists fixed in advance, where
   X_count.quiescent_size_exact_proof (C08_quiescent_exact) applies; the product machine's
   thread t, run alone, takes that answer (C08X_product.solo_call). *)
From CacheV Require Import Base SpecMap Client CacheModel CacheOfModel Ops SpecTTL Lin Conc XMachine.
From CacheV.gen Require Import Params.
From CacheV.proofs Require C01_sim C01_ops C02_good.
From CacheV.proofs Require Import X_basic X_lin X_linpoints X_count X_term CX_trans CX_compose CX_product CX_mapof C08X_product.
From Coq Require Import NArith.
Local Open Scope nat_scope.
Local Arguments p_x {K V XS} p.
Local Arguments p_thr {K V XS} p _.
Local Arguments p_todo {K V XS} p _.

Section CountOverXMachine.
  Context {K V : Type}.
  Variable eqd : forall a b : K, {a = b} + {a <> b}.
  Variable hash : K -> N -> N.
  Variable idx : N -> nat -> nat.
  Variable tag : N -> N.
  Variable nslots : nat.
  Variable seeds : nat -> N.
  Variable grow_needed shrink_policy : nat -> Z -> bool.
  Variable probe : list (option N) -> N -> list nat.
  Variable nstripes : nat -> nat.
  Variable minlen : nat.
  Variable grow_only : bool.
  Variable len0 : nat.
  Variable progs : cop K V -> prog K V (cres K V).
  Variables NOW DFLT : Z.
  Variable CB : cbid.

  Notation item := (item V).
  Notation xstate := (@xstate K item).
  Notation xop := (@xop K item).
  Notation xres := (@xres K item).
  Notation env0 := (Conc.env0 NOW DFLT).
  Notation xp_step := (@xp_step K item eqd hash idx tag nslots seeds grow_needed shrink_policy probe nstripes minlen grow_only).
  Notation xrun := (@xrun K item eqd hash idx tag nslots seeds grow_needed shrink_policy probe nstripes minlen grow_only).
  Notation xstep := (@xstep K item eqd hash idx tag nslots seeds grow_needed shrink_policy probe nstripes minlen grow_only).
  Notation xp_init := (@xp_init K V nslots seeds nstripes len0).
  Notation mrun := (mrun xstate xop xres xp_step).

  (* every map call but the snapshot goes to the machine; Size's answer is read back *)
  Definition sup8 (o : cmop K V) : bool := match o with CSnapshot => false | _ => true end.
  Definition back8 (o : cmop K V) (r : xres) : imres K V :=
    match o, r with
    | CSize, XRNat z => RSize (Z.to_nat z)
    | _, _ => back env0 o r
    end.

  Definition c8step := pstep progs NOW DFLT CB xstate xop xres xp_step (@g_todo K item) with_todo (translate env0) back8 sup8.
  Definition c8run := prun progs NOW DFLT CB xstate xop xres xp_step (@g_todo K item) with_todo (translate env0) back8 sup8.
  Definition c8init (todo : nat -> list (cop K V)) : pconf xstate := pinit xstate xop xp_init todo.

  (* ---------------- XMachine: the rest of the interface ---------------- *)

  Lemma with_todo_id (s : xstate) : with_todo s (g_todo s) = s.
  Proof. destruct s; reflexivity. Qed.

  Lemma xp_mrun_fst sched : forall s, fst (mrun s sched) = fst (xrun s sched).
  Proof.
    induction sched as [|t rest IH]; intros s; [reflexivity|].
    cbn [CX_product.mrun XMachine.xrun]. unfold CX_mapof.xp_step at 1.
    destruct (xstep s t) as [[s1 ls]|]; [|apply IH].
    specialize (IH s1). destruct (mrun s1 rest) as [s2 h2]. destruct (xrun s1 rest) as [s3 ls3]. exact IH.
  Qed.

  Lemma xhist_res (ls : list (@xlabel K item)) t r : In (XRes t r) ls -> In (HRes t r) (X_linpoints.xhist ls).
  Proof.
    induction ls as [|l ls IH]; intros H; [contradiction|].
    destruct H as [->|H]; [left; reflexivity|]. destruct l; cbn; auto.
  Qed.

  Hypothesis Hx : xhyps4 idx nstripes minlen nslots probe.
  Hypothesis Hlen : 0 < len0.

  (* what the machine's Size answers at a state that sits inside a reachable product state:
     thread t idle (started or not), every thread between calls with nothing to do *)
  Lemma machine_size_quiescent (todo : nat -> list (cop K V)) sched t :
    let p := fst (fst (c8run (c8init todo) sched)) in
    let x := p_x p in
    (forall u, g_todo x u = [] /\ xidle x u) ->
    let tb := tab_at nslots nstripes x (g_cur x) in
    let l := X_count.tpairs tb in
    (exists m, In (HRes t (XRNat (Z.of_nat (length l))))
                  (snd (mrun (push xstate xop (@g_todo K item) with_todo x t XSize) (repeat t m))))
    /\ (forall k v, In (k, v) l <-> X_lin.vis hash idx tb k v) /\ NoDup (map fst l).
  Proof.
    intros p x Hq tb l.
    set (fa := upd (fun _ : nat => @nil xop) t [XSize]).
    destruct (prophecy_state progs NOW DFLT CB xstate xop xres xp_step (@g_todo K item) with_todo
                (translate env0) back8 sup8
                (fun s td u => eq_refl) (fun s a b => eq_refl) (@xp_frame K item eqd hash idx tag nslots seeds grow_needed shrink_policy probe nstripes minlen grow_only)
                sched (c8init todo) fa) as [fut Hf].
    destruct (Hf (xp_init fut)) as [sched' [s'' [Hrun Ha]]].
    { exists fut. split; [reflexivity|]. intros u. reflexivity. }
    fold c8run in Ha, Hrun. fold p in Ha. fold x in Ha.
    destruct Ha as [td [Es Htd]].
    assert (Er : s'' = fst (xrun (xp_init fut) sched')) by (rewrite <- xp_mrun_fst, Hrun; reflexivity).
    assert (Htd' : forall u, td u = fa u) by (intros u; rewrite Htd; destruct (Hq u) as [-> _]; reflexivity).
    subst s''.
    assert (Hpush : forall m, snd (mrun (push xstate xop (@g_todo K item) with_todo x t XSize) (repeat t m))
                              = snd (mrun (with_todo x td) (repeat t m))).
    { intros m. unfold CX_product.push.
      apply (todo_ext xstate xop xres xp_step (@g_todo K item) with_todo (fun s td u => eq_refl) (fun s a b => eq_refl) with_todo_id
               (@xp_frame K item eqd hash idx tag nslots seeds grow_needed shrink_policy probe nstripes minlen grow_only)).
      intros u. rewrite Htd'. unfold fa, upd. destruct (Nat.eq_dec u t) as [->|]; [destruct (Hq t) as [-> _]; reflexivity | destruct (Hq u) as [-> _]; reflexivity]. }
    assert (Hmod : forall s3 : xstate, (forall u, g_pc s3 u = g_pc x u \/ g_pc s3 u = PIdle) -> forall u, X_count.modifying (g_pc s3 u) = false).
    { intros s3 H3 u. destruct (H3 u) as [E|E]; rewrite E; [|reflexivity]. destruct (Hq u) as [_ [E'|E']]; rewrite E'; reflexivity. }
    destruct (Hq t) as [_ [Ept|Ept]].
    - (* the goroutine has not run yet: its first step starts it *)
      set (s3 := set_pc (with_todo x td) t PIdle).
      assert (Est : xstep (with_todo x td) t = Some (s3, [XStep t KStart])).
      { unfold XMachine.xstep. cbn [with_todo g_pc]. rewrite Ept. reflexivity. }
      assert (Er3 : s3 = fst (xrun (xp_init fut) (sched' ++ [t]))).
      { rewrite (X_term.xrun_app eqd hash idx tag nslots seeds grow_needed shrink_policy probe nstripes minlen grow_only). cbn [fst].
        rewrite <- Er. cbn [XMachine.xrun]. rewrite Est. reflexivity. }
      pose proof (quiescent_size_exact_proof eqd hash idx tag nslots seeds grow_needed shrink_policy probe nstripes minlen grow_only
                    Hx len0 fut (sched' ++ [t]) t [] Hlen) as Hc.
      cbv zeta in Hc. unfold CX_mapof.xp_init in Er3. rewrite <- Er3 in Hc.
      destruct Hc as [H1 [H2 [H3 _]]].
      + apply Hmod. intros u. unfold s3. cbn [set_pc g_pc with_todo].
        destruct (Nat.eq_dec u t); [right; reflexivity | left; reflexivity].
      + unfold s3. cbn [set_pc g_pc]. destruct (Nat.eq_dec t t); congruence.
      + unfold s3. cbn [set_pc g_todo with_todo]. rewrite Htd'. unfold fa. apply upd_same.
      + assert (Etb : tab_at nslots nstripes s3 (g_cur s3) = tb) by reflexivity.
        rewrite Etb in H1, H2, H3. split; [|split; [exact H2 | exact H3]].
        exists (S (S (nstr tb))). rewrite Hpush.
        rewrite (xp_mrun eqd hash idx tag nslots seeds grow_needed shrink_policy probe nstripes minlen grow_only).
        apply xhist_res.
        assert (Hcons : forall rest, snd (xrun (with_todo x td) (t :: rest)) = [XStep t KStart] ++ snd (xrun s3 rest)).
        { intros rest. cbn [XMachine.xrun]. rewrite Est. destruct (xrun s3 rest); reflexivity. }
        change (repeat t (S (S (nstr tb)))) with (t :: repeat t (S (nstr tb))). rewrite Hcons. right. exact H1.
    - pose proof (quiescent_size_exact_proof eqd hash idx tag nslots seeds grow_needed shrink_policy probe nstripes minlen grow_only
                    Hx len0 fut sched' t [] Hlen) as Hc.
      cbv zeta in Hc. unfold CX_mapof.xp_init in Er. rewrite <- Er in Hc.
      destruct Hc as [H1 [H2 [H3 _]]].
      + apply Hmod. intros u. left. reflexivity.
      + cbn [with_todo g_pc]. exact Ept.
      + cbn [with_todo g_todo]. rewrite Htd'. unfold fa. apply upd_same.
      + assert (Etb : tab_at nslots nstripes (with_todo x td) (g_cur (with_todo x td)) = tb) by reflexivity.
        rewrite Etb in H1, H2, H3. split; [|split; [exact H2 | exact H3]].
        exists (S (nstr tb)). rewrite Hpush.
        rewrite (xp_mrun eqd hash idx tag nslots seeds grow_needed shrink_policy probe nstripes minlen grow_only).
        apply xhist_res. exact H1.
  Qed.

  (* ---------------- the cache level ---------------- *)

  (* the entries of a list of pairs that have not expired at NOW, and those that have *)
  Definition live_pairs (l : list (K * item)) : list (K * item) :=
    filter (fun kv => negb (expiredWithNow NOW (snd kv))) l.
  Definition dead_pairs (l : list (K * item)) : list (K * item) :=
    filter (fun kv => expiredWithNow NOW (snd kv)) l.

  Lemma live_dead_length (l : list (K * item)) : length l = length (live_pairs l) + length (dead_pairs l).
  Proof.
    unfold live_pairs, dead_pairs. induction l as [|[k i] l IH]; [reflexivity|]. cbn [filter snd].
    destruct (expiredWithNow NOW i); cbn [negb length]; rewrite IH; lia.
  Qed.

  Hypothesis Hcount : progs OCount = MapCall CSize (fun r => match r with RSize n => Ret (CNat n) | _ => Ret (CNat 0) end).

  Theorem count_quiescent (todo : nat -> list (cop K V)) sched t rest :
    let p := fst (fst (c8run (c8init todo) sched)) in
    (* no thread is inside a cache call; thread t's next call is Count *)
    (forall u, p_thr p u = QIdle) -> p_todo p t = OCount :: rest ->
    let tb := tab_at nslots nstripes (p_x p) (g_cur (p_x p)) in
    let l := X_count.tpairs tb in
    (* run alone, thread t invokes Count and answers the number of pairs of the current table ... *)
    (exists j, let r := c8run p (repeat (t, []) j) in
       cproj (snd (fst r)) = [HInv t OCount; HRes t (CNat (length l))]
       /\ p_thr (fst (fst r)) t = QIdle /\ p_todo (fst (fst r)) t = rest)
    (* ... which enumerate, without repetition, exactly what lock-free readers can find in it ... *)
    /\ (forall k v, In (k, v) l <-> X_lin.vis hash idx tb k v) /\ NoDup (map fst l)
    (* ... the live entries plus the expired entries not yet removed *)
    /\ length l = length (live_pairs l) + length (dead_pairs l)
    /\ length (live_pairs l) <= length l.
  Proof.
    intros p Hidle Htd tb l.
    assert (HP : PI xstate xop (@g_todo K item) (@xidle K item) (translate env0) sup8 p).
    { apply (prun_PI progs NOW DFLT CB xstate xop xres xp_step (@g_todo K item) with_todo (@xidle K item)
               (translate env0) back8 sup8 (fun s td u => eq_refl) (fun s td u => conj (fun H => H) (fun H => H))
               (@xp_proto K item eqd hash idx tag nslots seeds grow_needed shrink_policy probe nstripes minlen grow_only)).
      apply PI_init; [intros td u; reflexivity | intros td u; left; reflexivity]. }
    assert (Hq : forall u, g_todo (p_x p) u = [] /\ xidle (p_x p) u).
    { intros u. pose proof (HP u) as Hu. rewrite (Hidle u) in Hu. exact Hu. }
    destruct (machine_size_quiescent todo sched t Hq) as [[m Hin] [Hvis Hnd]].
    fold p in Hin, Hvis, Hnd. fold tb in Hin, Hvis, Hnd. fold l in Hin, Hvis, Hnd.
    split; [|split; [exact Hvis | split; [exact Hnd | split; [apply live_dead_length | rewrite (live_dead_length l); lia]]]].
    destruct (solo_call progs NOW DFLT CB xstate xop xres xp_step (@g_todo K item) with_todo (@xidle K item)
                (translate env0) back8 sup8 (fun s td u => eq_refl) (fun s td u => conj (fun H => H) (fun H => H))
                (@xp_proto K item eqd hash idx tag nslots seeds grow_needed shrink_policy probe nstripes minlen grow_only)
                t m p OCount rest CSize _ (XRNat (Z.of_nat (length l))) (CNat (length l))
                HP (Hidle t) Htd Hcount) as [j [A [B [C _]]]].
    - discriminate.
    - reflexivity.
    - cbn [back8]. rewrite Nat2Z.id. reflexivity.
    - exact Hin.
    - exists j. fold c8run in A, B, C. auto.
  Qed.

End CountOverXMachine.

(* ---------------- the statements ---------------- *)

Section FinalCount.
  Context {K V : Type}.
  Variable eqd : forall a b : K, {a = b} + {a <> b}.
  Variable hash : K -> N -> N.
  Variable idx : N -> nat -> nat.
  Variable tag : N -> N.
  Variable nslots : nat.
  Variable seeds : nat -> N.
  Variable grow_needed shrink_policy : nat -> Z -> bool.
  Variable probe : list (option N) -> N -> list nat.
  Variable nstripes : nat -> nat.
  Variable minlen : nat.
  Variable grow_only : bool.
  Variable zero : V.
  Variables NOW DFLT : Z.
  Variable CB : cbid.

  Notation c8runP progs len0 := (c8run eqd hash idx tag nslots seeds grow_needed shrink_policy probe nstripes minlen grow_only progs NOW DFLT CB).
  Notation c8initP len0 := (c8init nslots seeds nstripes len0).

  (* Cache (xsync_map.go's text) over MapOf's machine *)
  Theorem cache_count_quiescent_over_xmachine :
    xhyps4 idx nstripes minlen nslots probe ->
    forall len0 (todo : nat -> list (cop K V)) sched t rest, 0 < len0 ->
    let p := fst (fst (c8runP (prog_cache eqd zero) len0 (c8initP len0 todo) sched)) in
    (forall u, p_thr p u = QIdle) -> p_todo p t = OCount :: rest ->
    let tb := tab_at nslots nstripes (p_x p) (g_cur (p_x p)) in
    let l := X_count.tpairs tb in
    (exists j, let r := c8runP (prog_cache eqd zero) len0 p (repeat (t, []) j) in
       cproj (snd (fst r)) = [HInv t OCount; HRes t (CNat (length l))]
       /\ p_thr (fst (fst r)) t = QIdle /\ p_todo (fst (fst r)) t = rest)
    /\ (forall k v, In (k, v) l <-> X_lin.vis hash idx tb k v) /\ NoDup (map fst l)
    /\ length l = length (live_pairs NOW l) + length (dead_pairs NOW l)
    /\ length (live_pairs NOW l) <= length l.
  Proof.
    intros Hx len0 todo sched t rest Hlen.
    apply (count_quiescent eqd hash idx tag nslots seeds grow_needed shrink_policy probe nstripes minlen grow_only len0
             (prog_cache eqd zero) NOW DFLT CB Hx Hlen eq_refl).
  Qed.

  (* CacheOf (xsync_mapof.go's text) *)
  Theorem cacheof_count_quiescent_over_xmachine :
    xhyps4 idx nstripes minlen nslots probe ->
    forall len0 (todo : nat -> list (cop K V)) sched t rest, 0 < len0 ->
    let p := fst (fst (c8runP (prog_cacheof eqd zero) len0 (c8initP len0 todo) sched)) in
    (forall u, p_thr p u = QIdle) -> p_todo p t = OCount :: rest ->
    let tb := tab_at nslots nstripes (p_x p) (g_cur (p_x p)) in
    let l := X_count.tpairs tb in
    (exists j, let r := c8runP (prog_cacheof eqd zero) len0 p (repeat (t, []) j) in
       cproj (snd (fst r)) = [HInv t OCount; HRes t (CNat (length l))]
       /\ p_thr (fst (fst r)) t = QIdle /\ p_todo (fst (fst r)) t = rest)
    /\ (forall k v, In (k, v) l <-> X_lin.vis hash idx tb k v) /\ NoDup (map fst l)
    /\ length l = length (live_pairs NOW l) + length (dead_pairs NOW l)
    /\ length (live_pairs NOW l) <= length l.
  Proof.
    intros Hx len0 todo sched t rest Hlen.
    apply (count_quiescent eqd hash idx tag nslots seeds grow_needed shrink_policy probe nstripes minlen grow_only len0
             (prog_cacheof eqd zero) NOW DFLT CB Hx Hlen eq_refl).
  Qed.

  (* the specification side: the pairs of the table are an association list without repeated keys; IF it is
     related to a specification state by C01's simulation relation R (physical entry = specification entry, or
     absent where the specification's entry has expired), SpecTTL allows the answer:
     live entries <= n <= entries of the specification.  (That the table of a quiescent product state IS so
     related to the specification state of the linearized run is not proved here: it needs the abstraction
     function of X_resize.abs_step threaded through CX_compose.) *)
  Theorem count_answer_allowed (l : list (K * item V)) (s : cstate K V) :
    C01_sim.R eqd (C02_good.mk NOW DFLT CB l) s -> spec_ok eqd zero s OCount (CNat (length l)).
  Proof.
    intros HR. pose proof (C01_ops.sim_Count eqd zero _ _ HR) as H.
    unfold step_cache, step_with, prog_cache, CacheModel.Count in H. cbn in H. destruct H as [H _]. exact H.
  Qed.

End FinalCount.

Print Assumptions cache_count_quiescent_over_xmachine.
Print Assumptions cacheof_count_quiescent_over_xmachine.
