(* CX_cacheof.v -- Stage C for the generic twin: the cache methods of CacheOfModel.v
   (xsync_mapof.go) over the concurrent map machines.

   [cacheof_over_xmachine_linearizable]: CacheOf uses MapOf -- every run of the product
   machine "threads running the methods of CacheOfModel, each MapCall being a whole call of
   XMachine (invocation, the primitive steps of the Go code interleaved with everybody
   else's, response)" is linearizable at the cache level w.r.t. the TTL semantics [tspec].
   [cacheof_over_smachine_linearizable]: the same over XMachineS (Map), for symmetry.

   Both are instances of the product theorems of CX_mapof.v / CX_map.v (parametric in the
   programs) with C02_lin_of.cacheof_linearizable as the cache-level hypothesis. *)
From CacheV Require Import Base SpecMap Client CacheModel CacheOfModel Ops SpecTTL Lin Conc XMachine XMachineS.
From CacheV.gen Require Import Params.
From CacheV.proofs Require Import C01_sim C01_hist C02_good C02_lin C02_lin_of X_lin CX_mapof CX_map XS_resize.
From Coq Require Import NArith.
Local Open Scope nat_scope.

Section FinalOf.
  Context {K V : Type}.
  Variable eqd : forall a b : K, {a = b} + {a <> b}.
  Variable hash : K -> N -> N.
  Variable idx : N -> nat -> nat.
  Variable tag : N -> N.
  Variable nslots : nat.
  Variable seeds : nat -> N.
  Variable grow_needed shrink_policy : nat -> Z -> bool.
  Variable probe : list (option N) -> N -> list nat.
  Variable nstripes : nat -> nat.
  Variable minlen : nat.
  Variable grow_only : bool.
  Variable zero : V.
  Variables NOW DFLT : Z.
  Variable CB : cbid.

  (* C02 for CacheOf over the concurrent MapOf *)
  Theorem cacheof_over_xmachine_linearizable :
    xhyps4 idx nstripes minlen nslots probe -> forall len0 (todo : nat -> list (cop K V)) sched, 0 < len0 ->
    (forall t, Forall conc_ok (todo t)) ->
    linearizable _ _ _ (tspec eqd zero) (mk NOW DFLT CB [])
      (cxhist eqd hash idx tag nslots seeds grow_needed shrink_policy probe nstripes minlen grow_only len0
              (prog_cacheof eqd zero) NOW DFLT CB todo sched).
  Proof.
    intros Hx len0 todo sched Hlen Htodo.
    apply (xproduct_linearizable eqd hash idx tag nslots seeds grow_needed shrink_policy probe nstripes minlen grow_only
             len0 (prog_cacheof eqd zero) NOW DFLT CB Hx Hlen).
    intros sched'. apply (cacheof_linearizable eqd zero NOW DFLT CB [] [] todo sched'); [|exact Htodo].
    apply C01_hist.R_init. reflexivity.
  Qed.

End FinalOf.

Section FinalOfS.
  Context {K V : Type}.
  Variable eqd : forall a b : K, {a = b} + {a <> b}.
  Variable hash : K -> N -> N.
  Variable idx : N -> nat -> nat.
  Variable tophash : N -> N.
  Variable nslots : nat.
  Variable seeds : nat -> N.
  Variable grow_needed shrink_policy : nat -> Z -> bool.
  Variable nstripes : nat -> nat.
  Variable minlen : nat.
  Variable grow_only : bool.
  Variable zero : V.
  Variables NOW DFLT : Z.
  Variable CB : cbid.

  (* for symmetry: the generic text over the concurrent Map *)
  Theorem cacheof_over_smachine_linearizable :
    @XS_resize.rhyps K hash idx tophash nslots minlen -> forall len0 (todo : nat -> list (cop K V)) sched, 0 < len0 ->
    (forall t, Forall conc_ok (todo t)) ->
    linearizable _ _ _ (tspec eqd zero) (mk NOW DFLT CB [])
      (cshist eqd hash idx tophash nslots seeds grow_needed shrink_policy nstripes minlen grow_only len0
              (prog_cacheof eqd zero) NOW DFLT CB todo sched).
  Proof.
    intros Hr len0 todo sched Hlen Htodo.
    apply (sproduct_linearizable eqd hash idx tophash nslots seeds grow_needed shrink_policy nstripes minlen grow_only
             len0 (prog_cacheof eqd zero) NOW DFLT CB Hr Hlen).
    intros sched'. apply (cacheof_linearizable eqd zero NOW DFLT CB [] [] todo sched'); [|exact Htodo].
    apply C01_hist.R_init. reflexivity.
  Qed.

End FinalOfS.

Print Assumptions cacheof_over_xmachine_linearizable.
Print Assumptions cacheof_over_smachine_linearizable.

(* ---------------- the executable instances, and runs ---------------- *)
From CacheV Require Import TabExec Exec XExec XExecS.
From CacheV.proofs Require Import X_swar XS_cinst XS_rinst.

Theorem cacheof_over_xmachine_instance :
  forall (o : oracle) (sds : list N) (hint : Z) (zero : Z) (NOW DFLT : Z) (CB : cbid)
         (todo : nat -> list (cop Z Z)) sched,
    (forall t, Forall conc_ok (todo t)) ->
    linearizable _ _ _ (tspec zeqd zero) (mk NOW DFLT CB [])
      (cxhist zeqd (hash_of o) idx_mapof tag_mapof (Z.to_nat entriesPerMapOfBucket) (seeds_of sds)
              grow_needed_m shrink_policy_m probe_x nstripes_x (minlen_of_hint true hint) false (minlen_of_hint true hint)
              (prog_cacheof zeqd zero) NOW DFLT CB todo sched).
Proof.
  intros o sds hint zero NOW DFLT CB todo sched Htodo.
  apply (cacheof_over_xmachine_linearizable zeqd (hash_of o) idx_mapof tag_mapof (Z.to_nat entriesPerMapOfBucket) (seeds_of sds)
           grow_needed_m shrink_policy_m probe_x nstripes_x (minlen_of_hint true hint) false zero NOW DFLT CB
           (x_instance_hyps4 hint) (minlen_of_hint true hint) todo sched); [|exact Htodo].
  destruct (x_instance_hyps4 hint) as [[_ [_ H]] _]. exact H.
Qed.

Theorem cacheof_over_smachine_instance :
  forall (o : oracle) (sds : list N) (hint : Z) (zero : Z) (NOW DFLT : Z) (CB : cbid)
         (todo : nat -> list (cop Z Z)) sched, oracle64 o ->
    (forall t, Forall conc_ok (todo t)) ->
    linearizable _ _ _ (tspec zeqd zero) (mk NOW DFLT CB [])
      (cshist zeqd (hash_of o) idx_map tag_map (nslots_of false) (seeds_of sds)
              grow_needed_s shrink_policy_s nstripes_x (minlen_of_hint false hint) false (minlen_of_hint false hint)
              (prog_cacheof zeqd zero) NOW DFLT CB todo sched).
Proof.
  intros o sds hint zero NOW DFLT CB todo sched Ho Htodo.
  apply (cacheof_over_smachine_linearizable zeqd (hash_of o) idx_map tag_map (nslots_of false) (seeds_of sds)
           grow_needed_s shrink_policy_s nstripes_x (minlen_of_hint false hint) false zero NOW DFLT CB
           (s_instance_rhyps o hint Ho) (minlen_of_hint false hint) todo sched); [|exact Htodo].
  destruct (s_instance_rhyps o hint Ho) as [_ [_ [_ H]]]. exact H.
Qed.
Print Assumptions cacheof_over_xmachine_instance.
Print Assumptions cacheof_over_smachine_instance.

(* runs (the schedules of CX_mapof.cache_over_xmachine_run / CX_map.cache_over_smachine_run_a, with the
   generic text): thread 0 does Set(7, 1, 50ns) and GetAndDelete(7), thread 1 does Get(7) twice; the clock
   stands at 100.  Thread 1's first Get overlaps the GetAndDelete; both see the value 1; its second Get misses. *)
Definition cxof_ex_hist (todo : nat -> list (cop Z Z)) sched :=
  cxhist zeqd (hash_of []) idx_mapof tag_mapof (Z.to_nat entriesPerMapOfBucket) (seeds_of [])
         grow_needed_m shrink_policy_m probe_x nstripes_x (minlen_of_hint true 0%Z) false (minlen_of_hint true 0%Z)
         (prog_cacheof zeqd 0%Z) 100%Z 0%Z None todo sched.
Definition csof_ex_hist (todo : nat -> list (cop Z Z)) sched :=
  cshist zeqd (hash_of []) idx_map tag_map (nslots_of false) (seeds_of [])
         grow_needed_s shrink_policy_s nstripes_x (minlen_of_hint false 0%Z) false (minlen_of_hint false 0%Z)
         (prog_cacheof zeqd 0%Z) 100%Z 0%Z None todo sched.
Definition cof_ex_todo (t : nat) : list (cop Z Z) :=
  match t with O => [OSet 7%Z 1%Z 50%Z; OGetAndDelete 7%Z] | S O => [OGet 7%Z; OGet 7%Z] | _ => [] end.
Definition cof_sched (l : list nat) : list (nat * list (Z * item Z)) := map (fun t => (t, [])) l.

Example cacheof_over_xmachine_run :
  cxof_ex_hist cof_ex_todo (cof_sched (repeat 0 18 ++ [1; 1; 1; 1; 1; 1] ++ repeat 0 20 ++ repeat 1 30))
  = [HInv 0 (OSet 7%Z 1%Z 50%Z); HRes 0 CUnit; HInv 0 (OGetAndDelete 7%Z);
     HInv 1 (OGet 7%Z); HRes 0 (CVal 1%Z true); HRes 1 (CVal 1%Z true);
     HInv 1 (OGet 7%Z); HRes 1 (CVal 0%Z false)].
Proof. vm_compute. reflexivity. Qed.

Example cacheof_over_smachine_run :
  csof_ex_hist cof_ex_todo (cof_sched (repeat 0 22 ++ repeat 1 8 ++ repeat 0 30 ++ repeat 1 30))
  = [HInv 0 (OSet 7%Z 1%Z 50%Z); HRes 0 CUnit; HInv 0 (OGetAndDelete 7%Z);
     HInv 1 (OGet 7%Z); HRes 0 (CVal 1%Z true); HRes 1 (CVal 1%Z true);
     HInv 1 (OGet 7%Z); HRes 1 (CVal 0%Z false)].
Proof. vm_compute. reflexivity. Qed.
