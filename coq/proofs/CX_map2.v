(* CX_map2.v -- the cache methods over XMachineS (Map), the snapshot of DeleteExpired run ON THE
   MACHINE: XMachineS satisfies the interface of CX_product2.v.

   The snapshot is the machine's Range with a visitor that never calls the map
   ([SRange (fun _ _ => None)]); the kept events of a step are [hstep] of XS_linpoints2.v, the
   history of XS_linearizable2.smachine_linearizable2_proof.  Classes of a thread (all with
   NO Range frame): idle = QStart / QIdle; inkept = [skeptx] and [norange] (inside a Load /
   Compute / Clear); indrop = a program counter of Range itself whose visitor is silent.
   [skeptx_step], [rg_silent]: the classes are closed under steps (no invariant needed);
   [sstep_pc_frame_other]: a step does not touch the other threads' frames.

   [cache_over_smachine_linearizable2]: every run of the cache methods of CacheModel over
   XMachineS, every map call -- Range included -- being a whole call of the machine, is
   linearizable at the cache level w.r.t. the TTL semantics. *)
From CacheV Require Import Base SpecMap Client CacheModel Ops SpecTTL Lin Conc.
From CacheV.gen Require Import Params.
From CacheV.proofs Require X_linpoints.
From CacheV.proofs Require Import C01_sim C01_hist C02_good C02_lin XS_resize XS_linpoints XS_linpoints2 XS_linearizable2
  CX_trans CX_compose CX_product CX_map CX_product2.
From CacheV Require Import XMachineS.
From Coq Require Import NArith.
Local Open Scope nat_scope.

Section S2Classes.
  Context {K V : Type}.
  Variable eqd : forall a b : K, {a = b} + {a <> b}.
  Variable hash : K -> N -> N.
  Variable idx : N -> nat -> nat.
  Variable tophash : N -> N.
  Variable nslots : nat.
  Variable seeds : nat -> N.
  Variable grow_needed shrink_policy : nat -> Z -> bool.
  Variable nstripes : nat -> nat.
  Variable minlen : nat.
  Variable grow_only : bool.
  Notation mstate := (@mstate K V).
  Notation spc := (@spc K V).
  Notation sop := (@sop K V).
  Notation sres := (@sres V).
  Notation slabel := (@slabel K V).
  Notation sstep_pc := (@sstep_pc K V eqd hash idx tophash nslots seeds grow_needed shrink_policy nstripes minlen grow_only).
  Notation shist := (@XS_linpoints.shist K V).

  Definition isSome {X} (o : option X) : bool := match o with Some _ => true | None => false end.
  Definition skept (p : spc) : bool := isSome (spend p) || isSome (srdk p) || isSome (swcx p) || sclr p.
  Definition skeptx (p : spc) : bool := skept p || match p with QL_Table _ _ => true | _ => false end.

  Lemma skeptx_wrapS tab b v rg (a : spc) : skeptx (QU_Store tab b v rg a) = true -> skept a = true.
  Proof. unfold skeptx, skept. cbn [spend srdk swcx sclr]. destruct (spend a), (srdk a), (swcx a), (sclr a); cbn; intros; try discriminate; reflexivity. Qed.
  Lemma skeptx_wrapL tab b rg (a : spc) : skeptx (QU_Load tab b rg a) = true -> skept a = true.
  Proof. unfold skeptx, skept. cbn [spend srdk swcx sclr]. destruct (spend a), (srdk a), (swcx a), (sclr a); cbn; intros; try discriminate; reflexivity. Qed.
  Lemma skeptx_wrapA tab b d (a : spc) : skeptx (QA_Add tab b d a) = true -> skept a = true.
  Proof. unfold skeptx, skept. cbn [spend srdk swcx sclr]. destruct (spend a), (srdk a), (swcx a), (sclr a); cbn; intros; try discriminate; reflexivity. Qed.
  Lemma skeptx_LS tab b v rg (a : spc) : skeptx (QU_Load tab b rg a) = true -> skeptx (QU_Store tab b v rg a) = true.
  Proof. unfold skeptx, skept. cbn [spend srdk swcx sclr]. auto. Qed.

  Ltac prep p Hnr :=
    destruct p; cbn [norange] in Hnr; try contradiction;
    try (match goal with lk : lockk |- _ => destruct lk; try contradiction end);
    try (match type of Hnr with _ /\ _ => let E := fresh "Erg" in destruct Hnr as [E Hnr]; subst end).

  Ltac scases Hs :=
    cbn [XMachineS.sstep_pc XMachineS.after_lock] in Hs; cbv zeta in Hs;
    try (match type of Hs with context [scopy_chain ?a ?b ?c ?d ?e ?f] => destruct (scopy_chain a b c d e f) end; cbv beta iota zeta in Hs);
    repeat match type of Hs with context [match ?x with _ => _ end] => destruct x eqn:? end;
    try discriminate; apply some_pair_l in Hs; destruct Hs as [? ?]; subst.

  Lemma skeptx_step s t p s' ls : sstep_pc s t p = Some (s', ls) -> h_frame s t = None -> norange p -> skeptx p = true ->
    (skeptx (h_pc s' t) = true /\ shist ls = []) \/ (h_pc s' t = QIdle /\ exists r, shist ls = [HRes t r]).
  Proof.
    intros Hs Hf Hnr Hk.
    prep p Hnr; try discriminate Hk; scases Hs;
      rewrite ?sgoto_pc_nf, ?sgoto_hist_nf by (cbn; exact Hf); cbn [XS_linpoints.shist app XS_linpoints.snorm]; rewrite ?sfnev_hist; cbn [app].
    all: try (left; split; reflexivity).
    all: try (right; split; [reflexivity | eexists; reflexivity]).
    all: try (match goal with q : spc |- _ =>
                assert (Hq : skept q = true) by (first [exact (skeptx_wrapS _ _ _ _ _ Hk) | exact (skeptx_wrapL _ _ _ _ Hk) | exact (skeptx_wrapA _ _ _ _ Hk)]);
                destruct q; cbn [XS_linpoints.snorm];
                first [right; split; [reflexivity | eexists; reflexivity]
                      | left; split; [unfold skeptx; rewrite Hq; reflexivity | reflexivity]] end).
    all: try (match goal with kt : scont |- _ => destruct kt as [cx0|r0]; [|destruct r0] end;
              try (match goal with hn : option shint |- _ => destruct hn as [hh|]; [destruct hh|] end);
              try (match goal with hn : shint |- _ => destruct hn end);
              cbn in Hk |- *; first [left; split; reflexivity | right; split; [reflexivity | eexists; reflexivity] | discriminate Hk]).
    left. split; [apply skeptx_LS; exact Hk | reflexivity].
  Qed.

  Notation vfun := (K -> V -> option (@scx K V)).
  Definition silent (vf : vfun) : Prop := forall k v, vf k v = None.

  Lemma vout_silent rest (vf : vfun) : silent vf -> vout rest vf = None.
  Proof. intros Hs. induction rest as [|[k v] r IH]; cbn [vout]; [reflexivity|]. rewrite (Hs k v). exact IH. Qed.

  Lemma shist_vlab_silent t rest (vf : vfun) (a : spc) : silent vf ->
    shist (vlab t rest vf a) = match a with QRet r => [HRes t r] | _ => [] end.
  Proof.
    intros Hs. induction rest as [|[k v] r IH]; cbn [vlab].
    - destruct a; reflexivity.
    - rewrite (Hs k v). cbn [XS_linpoints.shist]. exact IH.
  Qed.

  Ltac gcase Hs :=
    cbn [XMachineS.sstep_pc XMachineS.after_lock] in Hs; cbv zeta in Hs;
    try (match type of Hs with context [scopy_chain ?a ?b ?c ?d ?e ?f] => destruct (scopy_chain a b c d e f) end; cbv beta iota zeta in Hs);
    repeat match type of Hs with context [match ?x with _ => _ end] => destruct x eqn:? end;
    try discriminate; apply some_pair_l in Hs; destruct Hs as [? ?]; subst.

  Lemma rg_silent s t p s' ls vf : sstep_pc s t p = Some (s', ls) -> h_frame s t = None -> rgvf p = Some vf -> rgwf p -> silent vf ->
    h_frame s' t = None /\ (h_pc s' t = QIdle -> exists r, shist ls = [HRes t r]) /\ (h_pc s' t <> QIdle -> shist ls = []).
  Proof.
    intros Hs Hf Hv Hw Hsil.
    destruct p; cbn [rgvf] in Hv; try discriminate Hv;
      try (match goal with lk : lockk |- _ => destruct lk; try discriminate Hv end);
      try (match goal with rg : option _ |- _ => destruct rg as [[snap vf0]|]; try discriminate Hv end);
      inversion Hv; subst; clear Hv; cbn [rgwf] in Hw.
    all: try (gcase Hs; cbn [XMachineS.sgoto]; rewrite ?Hf; cbn [fst snd h_frame sset_pc sset_tab]; rewrite ?sset_pc_same;
              (split; [exact Hf|]); (split; [intros X; first [discriminate X | eexists; reflexivity] | intros X; first [reflexivity | exfalso; apply X; reflexivity]])).
    cbn [XMachineS.sstep_pc] in Hs. cbv zeta in Hs. apply some_pair_l in Hs. destruct Hs as [-> ->].
    match goal with |- context [XMachineS.svisits ?S0 t snap vf p ?L] =>
      destruct (svisits_out S0 t snap vf p L) as [Ho _]; rewrite (svisits_snd S0 t snap vf p L) end.
    rewrite (vout_silent snap vf Hsil) in Ho. destruct Ho as [A B]. split; [exact B|]. rewrite A.
    rewrite shist_app, (shist_vlab_silent t snap vf p Hsil). cbn [XS_linpoints.shist app].
    destruct Hw as [->|[tab0 [b0 ->]]]; cbn [XS_linpoints2.snorm]; split; intros X;
      first [discriminate X | eexists; reflexivity | reflexivity | exfalso; apply X; reflexivity].
  Qed.

  Lemma norange_rgvf0 (p : spc) : norange p -> rgvf p = None.
  Proof.
    destruct p; cbn [norange rgvf]; intros H; try reflexivity; try contradiction;
      try (destruct lk; [reflexivity | reflexivity | contradiction]); destruct H as [-> _]; reflexivity.
  Qed.

  Lemma skeptx_swake (p : spc) : skeptx (swake p) = skeptx p. Proof. destruct p; reflexivity. Qed.

  Lemma skeptx_start o : sokop o -> skeptx (sstart_pc o) = true /\ norange (sstart_pc o).
  Proof. destruct o; cbn; try contradiction; intros _; try (split; [reflexivity | exact I]). unfold sstart_cx. cbn. destruct lie; split; try reflexivity; exact I. Qed.

  (* a step does not touch the other threads' frames *)
  Lemma svisits_frame_other t (vf : vfun) after u : u <> t -> forall rest (s : mstate) ls,
    h_frame (fst (svisits s t rest vf after ls)) u = h_frame s u.
  Proof.
    intros Hn. induction rest as [|[k v] rest IH]; intros s ls; cbn [svisits].
    - destruct after; cbn [fst sset_pc sset_frame h_frame]; destruct (Nat.eq_dec u t); try contradiction; reflexivity.
    - destruct (vf k v); [|apply IH]. cbn [fst sset_pc sset_frame h_frame]. destruct (Nat.eq_dec u t); [contradiction | reflexivity].
  Qed.

  Lemma sgoto_frame_other (s : mstate) t q ls u : u <> t -> h_frame (fst (sgoto s t q ls)) u = h_frame s u.
  Proof.
    intros Hn. destruct q; try reflexivity. cbn [sgoto]. destruct (h_frame s t); [apply svisits_frame_other; exact Hn | reflexivity].
  Qed.

  Ltac fcases Hs :=
    cbn [XMachineS.sstep_pc] in Hs; cbv zeta in Hs; unfold after_lock in Hs;
    try match goal with lk : lockk |- _ => destruct lk end;
    try (match type of Hs with context [scopy_chain ?a ?b ?c ?d ?e ?f] => destruct (scopy_chain a b c d e f) end; cbv beta iota zeta in Hs);
    repeat match type of Hs with context [match ?x with _ => _ end] => destruct x eqn:? end;
    try discriminate; apply some_pair_l in Hs; destruct Hs as [? ?]; subst.

  Lemma sstep_pc_frame_other s t p s' ls u : sstep_pc s t p = Some (s', ls) -> u <> t -> h_frame s' u = h_frame s u.
  Proof.
    intros Hs Hn. destruct p; fcases Hs; rewrite ?sgoto_frame_other, ?svisits_frame_other by exact Hn; reflexivity.
  Qed.

End S2Classes.

(* ---------------- XMachineS as a machine of CX_product2.v ---------------- *)

Section S2Frame.
  Context {K V : Type}.           (* the cache's key and value types; the map's values are items *)
  Variable eqd : forall a b : K, {a = b} + {a <> b}.
  Variable hash : K -> N -> N.
  Variable idx : N -> nat -> nat.
  Variable tophash : N -> N.
  Variable nslots : nat.
  Variable seeds : nat -> N.
  Variable grow_needed shrink_policy : nat -> Z -> bool.
  Variable nstripes : nat -> nat.
  Variable minlen : nat.
  Variable grow_only : bool.

  Notation item := (item V).
  Notation mstate := (@mstate K item).
  Notation spc := (@spc K item).
  Notation sop := (@sop K item).
  Notation sres := (@sres item).
  Notation slabel := (@slabel K item).
  Notation sstep_pc := (@sstep_pc K item eqd hash idx tophash nslots seeds grow_needed shrink_policy nstripes minlen grow_only).
  Notation sstep := (@sstep K item eqd hash idx tophash nslots seeds grow_needed shrink_policy nstripes minlen grow_only).
  Notation srun := (@srun K item eqd hash idx tophash nslots seeds grow_needed shrink_policy nstripes minlen grow_only).
  Notation srunh := (@srunh K item eqd hash idx tophash nslots seeds grow_needed shrink_policy nstripes minlen grow_only).
  Notation shist := (@XS_linpoints.shist K item).
  Notation hstep := (@XS_linpoints2.hstep K item).
  Notation hst := (@XS_linpoints2.hst K item).
  Notation sout := (@CX_product2.sout K V sop sres).
  Notation so_inv := (@CX_product2.so_inv K V sop sres).
  Notation so_res := (@CX_product2.so_res K V sop sres).
  Notation swith_todo := (@CX_map.swith_todo K item).
  Notation sinvoke := (@CX_map.sinvoke K item).
  Notation silent := (@silent K item).

  Definition sinv_of (h : list (hev sop sres)) : option sop := match h with HInv _ o :: _ => Some o | _ => None end.
  Fixpoint sres_of (h : list (hev sop sres)) : option sres :=
    match h with [] => None | HRes _ r :: _ => Some r | _ :: r => sres_of r end.
  Definition svis_of (ls : list slabel) : list (K * item) :=
    flat_map (fun l => match l with SVisit _ k v => [(k, v)] | _ => [] end) ls.
  Definition sso_of (ls : list slabel) : sout :=
    @CX_product2.Build_sout K V sop sres (sinv_of (shist ls)) (svis_of ls) (sres_of (shist ls)).

  Definition s2_step (s : mstate) (t : nat) : option (mstate * sout * list (hev sop sres)) :=
    match sstep s t with Some (s', ls) => Some (s', sso_of ls, hstep s t ls) | None => None end.

  Definition s2_idle (s : mstate) (t : nat) : Prop := (h_pc s t = QStart \/ h_pc s t = QIdle) /\ h_frame s t = None.
  Definition s2_inkept (s : mstate) (t : nat) : Prop := skeptx (h_pc s t) = true /\ norange (h_pc s t) /\ h_frame s t = None.
  Definition s2_indrop (s : mstate) (t : nat) : Prop :=
    h_frame s t = None /\ exists vf, rgvf (h_pc s t) = Some vf /\ silent vf /\ rgwf (h_pc s t).
  Definition s2_drop (o : sop) : bool := match o with SRange _ | SSize => true | _ => false end.
  Definition s2_ok (o : sop) : Prop := match o with SSize => False | SRange vf => silent vf | _ => True end.

  (* a step does not depend on what lies further down the todo lists *)
  Lemma sstep_frame s t s' ls td fut :
    sstep s t = Some (s', ls) -> (forall u, td u = h_todo s u ++ fut u) ->
    exists td', sstep (swith_todo s td) t = Some (swith_todo s' td', ls) /\ forall u, td' u = h_todo s' u ++ fut u.
  Proof.
    intros Ex Htd.
    destruct (spc_idle_dec (h_pc s t)) as [Hp|Hp].
    - rewrite (sstep_idle eqd hash idx tophash nslots seeds grow_needed shrink_policy nstripes minlen grow_only s t Hp) in Ex.
      rewrite (sstep_idle eqd hash idx tophash nslots seeds grow_needed shrink_policy nstripes minlen grow_only (swith_todo s td) t Hp).
      cbn [CX_map.swith_todo h_todo]. rewrite (Htd t).
      destruct (h_todo s t) as [|o rest] eqn:Et; [discriminate Ex|]. cbn [app].
      set (td1 := fun t' => if Nat.eq_dec t' t then rest ++ fut t else td t').
      change (sinvoke (swith_todo s td) t o (rest ++ fut t)) with (swith_todo (sinvoke s t o rest) td1).
      rewrite (sstep_pc_wtodo eqd hash idx tophash nslots seeds grow_needed shrink_policy nstripes minlen grow_only).
      assert (Htd1 : forall u, td1 u = h_todo (sinvoke s t o rest) u ++ fut u).
      { intros u. unfold td1. cbn [CX_map.sinvoke h_todo]. destruct (Nat.eq_dec u t) as [->|]; [reflexivity | apply Htd]. }
      destruct (sstep_pc (sinvoke s t o rest) t (sstart_pc o)) as [[s2 ls2]|] eqn:E2; cbn [slift spair fst snd].
      + inversion Ex; subst s' ls; clear Ex. exists td1. split; [reflexivity|].
        intros u. destruct (sstep_pc_shape eqd hash idx tophash nslots seeds grow_needed shrink_policy nstripes minlen grow_only _ _ _ _ _ E2) as [A _]. rewrite A. apply Htd1.
      + inversion Ex; subst s' ls; clear Ex. exists td1. split; [reflexivity | exact Htd1].
    - rewrite (sstep_nonidle eqd hash idx tophash nslots seeds grow_needed shrink_policy nstripes minlen grow_only s t Hp) in Ex.
      rewrite (sstep_nonidle eqd hash idx tophash nslots seeds grow_needed shrink_policy nstripes minlen grow_only (swith_todo s td) t Hp).
      cbn [CX_map.swith_todo h_pc].
      rewrite (sstep_pc_wtodo eqd hash idx tophash nslots seeds grow_needed shrink_policy nstripes minlen grow_only), Ex.
      cbn [slift spair fst snd]. exists td. split; [reflexivity|].
      intros u. destruct (sstep_pc_shape eqd hash idx tophash nslots seeds grow_needed shrink_policy nstripes minlen grow_only _ _ _ _ _ Ex) as [A _]. rewrite A. apply Htd.
  Qed.

  Lemma s2_frame s t s' so h td fut :
    s2_step s t = Some (s', so, h) -> (forall u, td u = h_todo s u ++ fut u) ->
    exists td', s2_step (swith_todo s td) t = Some (swith_todo s' td', so, h) /\ forall u, td' u = h_todo s' u ++ fut u.
  Proof.
    unfold s2_step. intros E Htd.
    destruct (sstep s t) as [[s1 ls]|] eqn:Ex; [|discriminate E]. inversion E; subst s1 so h; clear E.
    destruct (sstep_frame s t s' ls td fut Ex Htd) as [td' [E' Htd']].
    exists td'. rewrite E'. split; [reflexivity | exact Htd'].
  Qed.

  Lemma swake_idle (p : spc) : (p = QStart \/ p = QIdle) -> swake p = p.
  Proof. intros [-> | ->]; reflexivity. Qed.

  Lemma shape_inv (t : nat) (h : list (hev sop sres)) : (h = [] \/ exists r, h = [HRes t r]) -> sinv_of h = None.
  Proof. intros [->|[r ->]]; reflexivity. Qed.

  (* the call protocol of XMachineS, by class *)
  Lemma s2_proto s t s' so h : s2_step s t = Some (s', so, h) ->
    (forall u, u <> t -> h_todo s' u = h_todo s u /\ (s2_idle s u -> s2_idle s' u)
                         /\ (s2_inkept s u -> s2_inkept s' u) /\ (s2_indrop s u -> s2_indrop s' u))
    /\ (s2_idle s t ->
          (so_inv so = None /\ so_res so = None /\ h = [] /\ s2_idle s' t /\ h_todo s' t = h_todo s t)
          \/ (exists o rest, h_todo s t = o :: rest /\ h_todo s' t = rest /\ so_inv so = Some o
               /\ (s2_ok o ->
                   h = (if s2_drop o then [] else kev sop sres t (Some o) (so_res so))
                   /\ match so_res so with Some _ => s2_idle s' t | None => if s2_drop o then s2_indrop s' t else s2_inkept s' t end)))
    /\ (s2_inkept s t -> h_todo s' t = h_todo s t /\ so_inv so = None /\ h = kev sop sres t None (so_res so)
                         /\ match so_res so with Some _ => s2_idle s' t | None => s2_inkept s' t end)
    /\ (s2_indrop s t -> h_todo s' t = h_todo s t /\ so_inv so = None /\ h = []
                         /\ match so_res so with Some _ => s2_idle s' t | None => s2_indrop s' t end).
  Proof.
    unfold s2_step. intros E.
    destruct (sstep s t) as [[s1 ls]|] eqn:Ex; [|discriminate E]. inversion E; subst s1 so h; clear E.
    cbn [sso_of CX_product2.so_inv CX_product2.so_res].
    assert (Hcls : forall (s0 s2 : mstate),
              (forall u, u <> t -> h_pc s2 u = h_pc s0 u \/ h_pc s2 u = swake (h_pc s0 u)) ->
              (forall u, u <> t -> h_frame s2 u = h_frame s0 u) ->
              forall u, u <> t -> (s2_idle s0 u -> s2_idle s2 u) /\ (s2_inkept s0 u -> s2_inkept s2 u) /\ (s2_indrop s0 u -> s2_indrop s2 u)).
    { intros s0 s2 Hoth Hfo u Hn. unfold s2_idle, s2_inkept, s2_indrop. rewrite (Hfo u Hn).
      destruct (Hoth u Hn) as [Eu|Eu]; rewrite Eu; [auto|]. split; [|split].
      - intros [Hi Hf]. rewrite (swake_idle _ Hi). auto.
      - rewrite skeptx_swake. intros [A [B C]]. split; [exact A|]. split; [apply norange_swake; exact B | exact C].
      - intros [A [vf [B [C D]]]]. split; [exact A|]. exists vf. rewrite rgvf_swake. split; [exact B|]. split; [exact C | apply rgwf_swake; exact D]. }
    destruct (spc_idle_dec (h_pc s t)) as [Hp|Hp].
    - (* the invocation *)
      rewrite (sstep_idle eqd hash idx tophash nslots seeds grow_needed shrink_policy nstripes minlen grow_only s t Hp) in Ex.
      destruct (h_todo s t) as [|o rest] eqn:Et; [discriminate Ex|].
      destruct (sstep_pc (sinvoke s t o rest) t (sstart_pc o)) as [[s2 ls2]|] eqn:E2;
        [|exfalso; exact (sstart_pc_blocks_not eqd hash idx tophash nslots seeds grow_needed shrink_policy nstripes minlen grow_only _ _ _ E2)].
      inversion Ex; subst s' ls; clear Ex.
      destruct (sstep_pc_shape eqd hash idx tophash nslots seeds grow_needed shrink_policy nstripes minlen grow_only _ _ _ _ _ E2) as [Htd [Hoth0 Hsh]].
      assert (Hoth : forall u, u <> t -> h_pc s2 u = h_pc s u \/ h_pc s2 u = swake (h_pc s u)).
      { intros u Hn. destruct (Hoth0 u Hn) as [A|A]; rewrite A; cbn [CX_map.sinvoke h_pc]; (destruct (Nat.eq_dec u t) as [Hc|_]; [contradiction|]); auto. }
      assert (Hfo : forall u, u <> t -> h_frame s2 u = h_frame s u).
      { intros u Hn. apply (sstep_pc_frame_other eqd hash idx tophash nslots seeds grow_needed shrink_policy nstripes minlen grow_only _ _ _ _ _ u E2 Hn). }
      split; [|split; [|split]].
      + intros u Hn. split; [|apply (Hcls s s2 Hoth Hfo u Hn)].
        rewrite Htd. cbn [CX_map.sinvoke h_todo]. destruct (Nat.eq_dec u t) as [Hc|_]; [contradiction | reflexivity].
      + intros [_ Hf0]. right. exists o, rest. split; [reflexivity|]. split.
        { rewrite Htd. cbn [CX_map.sinvoke h_todo]. destruct (Nat.eq_dec t t) as [_|Hc]; [reflexivity | congruence]. }
        cbn [XS_linpoints.shist sinv_of]. split; [reflexivity|]. intros Hok.
        assert (Hf1 : h_frame (sinvoke s t o rest) t = None) by exact Hf0.
        assert (Hctx : ctxof s t = None) by (unfold ctxof; rewrite Hf0, Hp; reflexivity).
        unfold XS_linpoints2.hstep. rewrite Hctx.
        assert (Hkept : sokop o -> s2_drop o = false ->
                  hst None None (SInv t o :: ls2) = kev sop sres t (Some o) (sres_of (HInv t o :: shist ls2))
                  /\ match sres_of (HInv t o :: shist ls2) with Some _ => s2_idle s2 t | None => s2_inkept s2 t end).
        { intros Hso Hdr. destruct (skeptx_start o Hso) as [Hk Hnr].
          destruct (step_scope eqd hash idx tophash nslots seeds grow_needed shrink_policy nstripes minlen grow_only _ _ _ _ _ E2 Hf1 Hnr) as [Hfr [_ [Hnr' _]]].
          pose proof (hstep_pc_shist eqd hash idx tophash nslots seeds grow_needed shrink_policy nstripes minlen grow_only _ _ _ _ _ E2 Hnr Hf1) as Hh.
          assert (Hf2 : h_frame s2 t = None) by (rewrite Hfr; exact Hf1).
          assert (Ehst : hst None None (SInv t o :: ls2) = HInv t o :: shist ls2).
          { destruct o; try contradiction; cbn [XS_linpoints2.hst]; rewrite Hh; reflexivity. }
          rewrite Ehst. cbn [sres_of].
          destruct (skeptx_step eqd hash idx tophash nslots seeds grow_needed shrink_policy nstripes minlen grow_only _ _ _ _ _ E2 Hf1 Hnr Hk) as [[A B]|[A [r B]]];
            rewrite B; cbn [sres_of kev app]; (split; [reflexivity|]).
          - split; [exact A|]. split; [exact Hnr' | exact Hf2].
          - split; [right; exact A | exact Hf2]. }
        destruct o as [k|k f ev lie co| | |vf]; cbn [s2_drop].
        * apply Hkept; [exact I | reflexivity].
        * apply Hkept; [exact I | reflexivity].
        * apply Hkept; [exact I | reflexivity].
        * contradiction.
        * (* Range with a silent visitor *)
          cbn [s2_ok] in Hok. cbn [XS_linpoints2.hst XS_linpoints.shist sres_of].
          assert (Hv : rgvf (sstart_pc (SRange vf)) = Some vf) by reflexivity.
          assert (Hw : rgwf (sstart_pc (SRange vf))) by exact I.
          destruct (rg_silent eqd hash idx tophash nslots seeds grow_needed shrink_policy nstripes minlen grow_only _ _ _ _ _ vf E2 Hf1 Hv Hw Hok) as [Hf2 [Hq1 Hq2]].
          destruct (L_rg eqd hash idx tophash nslots seeds grow_needed shrink_policy nstripes minlen grow_only _ _ _ _ _ vf E2 Hf1 Hv Hw)
            as [_ [[_ [A [B C]]]|[[_ [A C]]|[cx [r' [a [_ [Hc _]]]]]]]]; [| |rewrite Hf2 in Hc; discriminate Hc].
          -- rewrite C. split; [reflexivity|].
             assert (Hne : h_pc s2 t <> QIdle) by (intros X; rewrite X in A; discriminate A).
             rewrite (Hq2 Hne). cbn [sres_of]. split; [exact Hf2|]. exists vf. auto.
          -- rewrite C. split; [reflexivity|]. destruct (Hq1 A) as [r Er]. rewrite Er. cbn [sres_of]. split; [right; exact A | exact Hf2].
      + intros [Hk _]. rewrite Hp in Hk. discriminate Hk.
      + intros [_ [vf [Hv _]]]. rewrite Hp in Hv. discriminate Hv.
    - rewrite (sstep_nonidle eqd hash idx tophash nslots seeds grow_needed shrink_policy nstripes minlen grow_only s t Hp) in Ex.
      destruct (sstep_pc_shape eqd hash idx tophash nslots seeds grow_needed shrink_policy nstripes minlen grow_only _ _ _ _ _ Ex) as [Htd [Hoth Hsh]].
      assert (Hfo : forall u, u <> t -> h_frame s' u = h_frame s u).
      { intros u Hn. apply (sstep_pc_frame_other eqd hash idx tophash nslots seeds grow_needed shrink_policy nstripes minlen grow_only _ _ _ _ _ u Ex Hn). }
      assert (Hinv : sinv_of (shist ls) = None).
      { apply (shape_inv t). destruct Hsh as [A|[r [A _]]]; [left; exact A | right; exists r; exact A]. }
      split; [|split; [|split]].
      + intros u Hn. split; [rewrite Htd; reflexivity | apply (Hcls s s' Hoth Hfo u Hn)].
      + (* the goroutine starts *)
        intros [[Hs|Hi] Hf0]; [|contradiction]. left.
        rewrite Hs in Ex. cbn [XMachineS.sstep_pc] in Ex. inversion Ex; subst s' ls; clear Ex.
        cbn [XS_linpoints.shist sinv_of sres_of]. split; [reflexivity|]. split; [reflexivity|].
        split; [unfold XS_linpoints2.hstep; reflexivity|].
        split; [|reflexivity]. split; [right; cbn [sset_pc h_pc]; destruct (Nat.eq_dec t t); congruence | exact Hf0].
      + (* inside a kept call *)
        intros [Hk [Hnr Hf0]]. split; [rewrite Htd; reflexivity|]. split; [exact Hinv|].
        destruct (step_scope eqd hash idx tophash nslots seeds grow_needed shrink_policy nstripes minlen grow_only _ _ _ _ _ Ex Hf0 Hnr) as [Hfr [_ [Hnr' _]]].
        pose proof (hstep_pc_shist eqd hash idx tophash nslots seeds grow_needed shrink_policy nstripes minlen grow_only _ _ _ _ _ Ex Hnr Hf0) as Hh.
        assert (Hf2 : h_frame s' t = None) by (rewrite Hfr; exact Hf0).
        assert (Hctx : ctxof s t = None) by (unfold ctxof; rewrite Hf0; apply norange_rgvf0; exact Hnr).
        unfold XS_linpoints2.hstep. rewrite Hctx, Hh.
        destruct (skeptx_step eqd hash idx tophash nslots seeds grow_needed shrink_policy nstripes minlen grow_only _ _ _ _ _ Ex Hf0 Hnr Hk) as [[A B]|[A [r B]]];
          rewrite B; cbn [sres_of kev app]; (split; [reflexivity|]).
        * split; [exact A|]. split; [exact Hnr' | exact Hf2].
        * split; [right; exact A | exact Hf2].
      + (* inside a Range with a silent visitor *)
        intros [Hf0 [vf [Hv [Hsil Hw]]]]. split; [rewrite Htd; reflexivity|]. split; [exact Hinv|].
        assert (Hctx : ctxof s t = Some vf) by (unfold ctxof; rewrite Hf0; exact Hv).
        unfold XS_linpoints2.hstep. rewrite Hctx.
        destruct (rg_silent eqd hash idx tophash nslots seeds grow_needed shrink_policy nstripes minlen grow_only _ _ _ _ _ vf Ex Hf0 Hv Hw Hsil) as [Hf2 [Hq1 Hq2]].
        destruct (L_rg eqd hash idx tophash nslots seeds grow_needed shrink_policy nstripes minlen grow_only _ _ _ _ _ vf Ex Hf0 Hv Hw)
          as [_ [[_ [A [B C]]]|[[_ [A C]]|[cx [r' [a [_ [Hc _]]]]]]]]; [| |rewrite Hf2 in Hc; discriminate Hc].
        * rewrite C. split; [reflexivity|].
          assert (Hne : h_pc s' t <> QIdle) by (intros X; rewrite X in A; discriminate A).
          rewrite (Hq2 Hne). cbn [sres_of]. split; [exact Hf2|]. exists vf. auto.
        * rewrite C. split; [reflexivity|]. destruct (Hq1 A) as [r Er]. rewrite Er. cbn [sres_of]. split; [right; exact A | exact Hf2].
  Qed.

  Lemma s2_mrun sched : forall s, snd (mrun2 mstate sop sres s2_step s sched) = srunh s sched.
  Proof.
    induction sched as [|t rest IH]; intros s; [reflexivity|].
    cbn [mrun2 XS_linearizable2.srunh]. unfold s2_step at 1.
    destruct (sstep s t) as [[s1 ls]|]; [|apply IH].
    specialize (IH s1). destruct (mrun2 mstate sop sres s2_step s1 rest) as [s2 h2]. cbn [snd] in *. rewrite IH. reflexivity.
  Qed.

End S2Frame.

(* ---------------- the cache over XMachineS, Range included ---------------- *)

Section CacheOverXMachineS2.
  Context {K V : Type}.
  Variable eqd : forall a b : K, {a = b} + {a <> b}.
  Variable hash : K -> N -> N.
  Variable idx : N -> nat -> nat.
  Variable tophash : N -> N.
  Variable nslots : nat.
  Variable seeds : nat -> N.
  Variable grow_needed shrink_policy : nat -> Z -> bool.
  Variable nstripes : nat -> nat.
  Variable minlen : nat.
  Variable grow_only : bool.
  Variable len0 : nat.
  Variable progs : cop K V -> prog K V (cres K V).
  Variables NOW DFLT : Z.
  Variable CB : cbid.

  Notation item := (item V).
  Notation mstate := (@mstate K item).
  Notation sop := (@sop K item).
  Notation sres := (@sres item).
  Notation env0 := (Conc.env0 NOW DFLT).
  Notation s2_step := (@s2_step K V eqd hash idx tophash nslots seeds grow_needed shrink_policy nstripes minlen grow_only).
  Notation swith_todo := (@CX_map.swith_todo K item).
  Notation rhyps := (@XS_resize.rhyps K hash idx tophash nslots minlen).

  (* the snapshot: Range with a visitor that never calls the map *)
  Definition s2_range : sop := SRange (fun _ _ => None).

  Definition s2_init (td : nat -> list sop) : mstate := sinit nslots seeds nstripes len0 td.

  Definition cs2step := CX_product2.pstep progs NOW DFLT CB mstate sop sres s2_step (@h_todo K item) swith_todo
                          (stranslate env0) (sback env0) (@ssup K V) s2_range.
  Definition cs2run := CX_product2.prun progs NOW DFLT CB mstate sop sres s2_step (@h_todo K item) swith_todo
                          (stranslate env0) (sback env0) (@ssup K V) s2_range.
  Definition cs2init (todo : nat -> list (cop K V)) : CX_product2.pconf mstate := CX_product2.pinit mstate sop s2_init todo.

  Definition cs2hist (todo : nat -> list (cop K V)) (sched : list nat) : list (hev (cop K V) (cres K V)) :=
    cproj (snd (fst (cs2run (cs2init todo) sched))).

  Hypothesis Hr : rhyps.
  Hypothesis Hlen : 0 < len0.

  Theorem sproduct2_linearizable (St : Type) (spec : St -> cop K V -> cres K V -> St -> Prop) (S0 : St) todo sched :
    (forall sched', linearizable _ _ St spec S0 (history (snd (crun eqd progs NOW DFLT CB (cinit [] todo) sched')))) ->
    linearizable _ _ St spec S0 (cs2hist todo sched).
  Proof.
    intros Hall. unfold cs2hist, cs2run, cs2init.
    apply (product2_linearizable eqd progs NOW DFLT CB mstate sop sres (X_linpoints.amap K item)
             s2_step (@h_todo K item) swith_todo (@s2_idle K V) (@s2_inkept K V) (@s2_indrop K V) s2_init
             (sspec eqd) (X_linpoints.aempty (K:=K) (V:=item)) (@s2_ok K V) (@s2_drop K V)
             (stranslate env0) (sback env0) (@ssup K V) s2_range); try exact Hall.
    - intros s td t. reflexivity.
    - intros s td t. split; intros H; exact H.
    - intros s td t. split; intros H; exact H.
    - intros s td t. split; intros H; exact H.
    - intros s a b. reflexivity.
    - intros td t. reflexivity.
    - intros td t. split; [left; reflexivity | reflexivity].
    - intros a b. reflexivity.
    - intros s t s' so h td fut. apply s2_frame.
    - intros s t s' so h. apply s2_proto.
    - intros o Ho. destruct o; cbn in Ho |- *; try discriminate Ho; split; first [exact I | reflexivity].
    - split; [intros k v; reflexivity | reflexivity].
    - intros td sched0 Htd. rewrite s2_mrun.
      apply (smachine_linearizable2_proof eqd hash idx tophash nslots seeds grow_needed shrink_policy nstripes minlen grow_only
               Hr len0 td sched0 Hlen).
      intros t. eapply Forall_impl; [|apply Htd]. intros o Ho. destruct o; cbn in Ho |- *; auto.
    - intros hx hm Hh Hl. apply (map_lin_transfer eqd env0 hx hm); [|exact Hl].
      eapply hrel_ok_mono; [|exact Hh]. intros o Ho. destruct o; cbn in Ho |- *; try exact I; discriminate Ho.
  Qed.

End CacheOverXMachineS2.

Section FinalS2.
  Context {K V : Type}.
  Variable eqd : forall a b : K, {a = b} + {a <> b}.
  Variable hash : K -> N -> N.
  Variable idx : N -> nat -> nat.
  Variable tophash : N -> N.
  Variable nslots : nat.
  Variable seeds : nat -> N.
  Variable grow_needed shrink_policy : nat -> Z -> bool.
  Variable nstripes : nat -> nat.
  Variable minlen : nat.
  Variable grow_only : bool.
  Variable zero : V.
  Variables NOW DFLT : Z.
  Variable CB : cbid.

  (* C02 over the concurrent Map, every map call -- the Range of DeleteExpired included -- run on XMachineS *)
  Theorem cache_over_smachine_linearizable2 :
    @XS_resize.rhyps K hash idx tophash nslots minlen -> forall len0 (todo : nat -> list (cop K V)) sched, 0 < len0 ->
    (forall t, Forall conc_ok (todo t)) ->
    linearizable _ _ _ (tspec eqd zero) (mk NOW DFLT CB [])
      (cs2hist eqd hash idx tophash nslots seeds grow_needed shrink_policy nstripes minlen grow_only len0
               (prog_cache eqd zero) NOW DFLT CB todo sched).
  Proof.
    intros Hr len0 todo sched Hlen Htodo.
    apply (sproduct2_linearizable eqd hash idx tophash nslots seeds grow_needed shrink_policy nstripes minlen grow_only
             len0 (prog_cache eqd zero) NOW DFLT CB Hr Hlen).
    intros sched'. apply (cache_linearizable eqd zero NOW DFLT CB [] [] todo sched'); [|exact Htodo].
    apply C01_hist.R_init. reflexivity.
  Qed.

End FinalS2.

Print Assumptions cache_over_smachine_linearizable2.

(* ---------------- the executable instance (XExecS.v) ---------------- *)
From CacheV Require Import TabExec Exec XExec XExecS.
From CacheV.proofs Require Import XS_cinst XS_rinst.

Theorem cache_over_smachine_instance2 :
  forall (o : oracle) (sds : list N) (hint : Z) (zero : Z) (NOW DFLT : Z) (CB : cbid)
         (todo : nat -> list (cop Z Z)) sched, oracle64 o ->
    (forall t, Forall conc_ok (todo t)) ->
    linearizable _ _ _ (tspec zeqd zero) (mk NOW DFLT CB [])
      (cs2hist zeqd (hash_of o) idx_map tag_map (nslots_of false) (seeds_of sds)
               grow_needed_s shrink_policy_s nstripes_x (minlen_of_hint false hint) false (minlen_of_hint false hint)
               (prog_cache zeqd zero) NOW DFLT CB todo sched).
Proof.
  intros o sds hint zero NOW DFLT CB todo sched Ho Htodo.
  apply (cache_over_smachine_linearizable2 zeqd (hash_of o) idx_map tag_map (nslots_of false) (seeds_of sds)
           grow_needed_s shrink_policy_s nstripes_x (minlen_of_hint false hint) false zero NOW DFLT CB
           (s_instance_rhyps o hint Ho) (minlen_of_hint false hint) todo sched); [|exact Htodo].
  destruct (s_instance_rhyps o hint Ho) as [_ [_ [_ H]]]. exact H.
Qed.
Print Assumptions cache_over_smachine_instance2.

Definition cs2_dexp : Z := (two64 - 50)%Z.
Definition cs2_ex_todo (t : nat) : list (cop Z Z) :=
  match t with O => [OSet 7%Z 1%Z cs2_dexp; ODeleteExpired] | S O => [OSet 7%Z 2%Z 50%Z; OGet 7%Z] | _ => [] end.
Definition cs2_ex_run sched :=
  cs2run zeqd (hash_of []) idx_map tag_map (nslots_of false) (seeds_of [])
         grow_needed_s shrink_policy_s nstripes_x (minlen_of_hint false 0%Z) false
         (prog_cache zeqd 0%Z) 100%Z 0%Z None
         (cs2init (nslots_of false) (seeds_of []) nstripes_x (minlen_of_hint false 0%Z) cs2_ex_todo) sched.
Definition cs2_thr sched (t : nat) := p_thr _ (fst (fst (cs2_ex_run sched))) t.
Definition cs2_ex_hist sched : list (hev (cop Z Z) (cres Z Z)) := cproj (snd (fst (cs2_ex_run sched))).

(* part (c) over the Map: a DeleteExpired whose traversal overlaps a Set of the same key (see CX_mapof2.v for the
   story; the clock stands at 100, the planted entry expires at 50).  The Range has visited (7, {1, 50}) and goes on
   (cs2_s1); thread 1's Set(7, 2, 50ns) runs from invocation to response (cs2_s2); DeleteExpired is then inside its
   re-checking Compute on key 7 (cs2_s3); it keeps the fresh entry: the Get answers (2, true). *)
Definition cs2_s1 : list nat := repeat 0 40.
Definition cs2_s2 : list nat := cs2_s1 ++ repeat 1 14.
Definition cs2_s3 : list nat := cs2_s2 ++ repeat 0 116.
Definition cs2_s4 : list nat := cs2_s3 ++ repeat 0 44 ++ repeat 1 30.

Definition cs2_ex_inst : list (iev (cop Z Z) (cres Z Z)) :=
  [IInv 0 (OSet 7%Z 1%Z cs2_dexp); ILin 0 (OSet 7%Z 1%Z cs2_dexp) CUnit; IRes 0 CUnit;
   IInv 0 ODeleteExpired; IInv 1 (OSet 7%Z 2%Z 50%Z);
   ILin 1 (OSet 7%Z 2%Z 50%Z) CUnit; IRes 1 CUnit;
   ILin 0 ODeleteExpired CUnit; IRes 0 CUnit;
   IInv 1 (OGet 7%Z); ILin 1 (OGet 7%Z) (CVal 2%Z true); IRes 1 (CVal 2%Z true)].

Example delete_expired_overlaps_set_map :
  (exists o k, cs2_thr cs2_s1 0 = QSWait o k [(7%Z, {| iv := 1%Z; ie := 50%Z |})])
  /\ cs2_ex_hist cs2_s2
     = [HInv 0 (OSet 7%Z 1%Z cs2_dexp); HRes 0 CUnit; HInv 0 ODeleteExpired; HInv 1 (OSet 7%Z 2%Z 50%Z); HRes 1 CUnit]
  /\ (exists o c k, cs2_thr cs2_s3 0 = QWait o (CCompute 7%Z c) k)
  /\ cs2_ex_hist cs2_s4
     = [HInv 0 (OSet 7%Z 1%Z cs2_dexp); HRes 0 CUnit; HInv 0 ODeleteExpired; HInv 1 (OSet 7%Z 2%Z 50%Z); HRes 1 CUnit;
        HRes 0 CUnit; HInv 1 (OGet 7%Z); HRes 1 (CVal 2%Z true)]
  /\ erase _ _ cs2_ex_inst = cs2_ex_hist cs2_s4
  /\ wf_inst _ _ (fun _ => TIdle) cs2_ex_inst
  /\ legal _ _ _ (tspec zeqd 0%Z) (mk 100%Z 0%Z None []) cs2_ex_inst.
Proof.
  split; [eexists; eexists; vm_compute; reflexivity|].
  split; [vm_compute; reflexivity|].
  split; [eexists; eexists; eexists; vm_compute; reflexivity|].
  split; [vm_compute; reflexivity|].
  split; [vm_compute; reflexivity|].
  split.
  - unfold cs2_ex_inst. repeat first [ apply wf_nil | apply wf_inv; [reflexivity|] | eapply wf_lin; [reflexivity|] | eapply wf_res; [reflexivity|] ].
  - unfold cs2_ex_inst.
    repeat first [ apply legal_nil | apply legal_inv | apply legal_res
                 | eapply legal_lin; [split; [vm_compute; reflexivity | reflexivity]|] ].
Qed.
