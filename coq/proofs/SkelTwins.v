(* SkelTwins.v -- C12, statically: the two texts of the cache layer have the same call structure
   (budgets translated from xsync_map.go and xsync_mapof.go on every run, see Skel.v) *)
From CacheV.gen Require Import SrcFacts.
Theorem twins_same_budgets : budgets_map = budgets_mapof.
Proof. reflexivity. Qed.
