(* C02T_main.v -- C02 with a clock that advances DURING the concurrent run:
   the cache methods of CacheModel.v (xsync_map.go), run by any number of
   threads over one shared atomic map under every schedule of thread moves and
   ticks (ConcT.v), are linearizable in the interval-timestamped sense of LinT.v
   with respect to SpecTTL; and every thread's trace satisfies the C05/C06
   monitor of C02_lin.v. *)
From CacheV Require Import Base SpecMap Client CacheModel Ops SpecTTL Lin LinT Conc ConcT.
From CacheV.gen Require Import Params.
From CacheV.proofs Require Import C01_sim C01_hist C02_good C02_lin LinT_facts C02T_good C02T_methods C02T_lin.

Section Main.
  Context {K V : Type}.
  Variable eqd : forall a b : K, {a = b} + {a <> b}.
  Variable zero : V.
  Variable DFLT : Z.
  Variable CB : cbid.

  Theorem cache_linearizable_ticking (now0 : Z) (P0 L0 : amap K (item V)) (todo : nat -> list (cop K V)) sched :
    (* the starting point: any physical map related to a specification state, at the clock now0, as in C01 *)
    Rm eqd now0 DFLT CB P0 L0 ->
    (forall t, Forall conc_ok (todo t)) ->
    cache_linearizableT eqd zero (mk now0 DFLT CB L0)
      (historyT (snd (trun eqd (prog_cache eqd zero) DFLT CB (tinit now0 P0 todo) sched))).
  Proof.
    apply (gen_linearizableT eqd zero DFLT CB (prog_cache eqd zero) (goodT_init eqd zero DFLT CB)).
  Qed.

  (* C06 (callbacks exactly for what the call removed, in order, with the callback in force) and
     C05 (the user function at most once, exactly as the answer says) under ticks *)
  Theorem cache_monitored_ticking (now0 : Z) (P0 L0 : amap K (item V)) (todo : nat -> list (cop K V)) sched t :
    Rm eqd now0 DFLT CB P0 L0 ->
    (forall t, Forall conc_ok (todo t)) ->
    mon_accepts CB t mon_idle (untick (snd (trun eqd (prog_cache eqd zero) DFLT CB (tinit now0 P0 todo) sched))).
  Proof.
    apply (gen_monitoredT eqd zero DFLT CB (prog_cache eqd zero) (goodT_init eqd zero DFLT CB)).
  Qed.

  (* the empty cache is such a starting point *)
  Lemma start_empty_ticking now0 : Rm eqd now0 DFLT CB (@nil (K * item V)) [].
  Proof. apply C01_hist.R_init. reflexivity. Qed.

End Main.

Print Assumptions cache_linearizable_ticking.
Print Assumptions cache_monitored_ticking.
