(* C08_cache.v -- Count at the cache level; physical presence of keys (also used by C15). *)
From CacheV Require Import Base SpecMap Client CacheModel Ops SpecTTL.
From CacheV.gen Require Import Params.
From CacheV.proofs Require Import C01_sim C01_ops C06_seq.

Section Count.
  Context {K V : Type}.
  Variable eqd : forall a b : K, {a = b} + {a <> b}.
  Variable zero : V.
  Notation step := (step_cache eqd zero).
  Notation P m := (st_map m).
  Notation R := (R eqd).

  (* Count answers the number of keys physically present *)
  Lemma count_physical m :
    step m OCount = (with_map m (P m), CNat (length (P m)), []).
  Proof. reflexivity. Qed.

  (* ... which is 0 right after Clear *)
  Lemma count_after_clear m :
    let '(m1, _, _) := step m OClear in snd (fst (step m1 OCount)) = CNat 0.
  Proof. reflexivity. Qed.

  (* right after DeleteExpired every physical entry is live *)
  Lemma after_delexp_all_live m : NoDup (keys (P m)) ->
    let '(m1, _, _) := step m ODeleteExpired in
    st_now m1 = st_now m /\
    forall k i, lookup eqd k (P m1) = Some i -> expiredWithNow (st_now m) i = false /\ lookup eqd k (P m) = Some i.
  Proof.
    intros Hnd. unfold step_cache, step_with, prog_cache.
    pose proof (fires_DeleteExpired eqd zero m Hnd) as H.
    destruct (run_seq eqd (DeleteExpired zero) m) as [[m1 r] evs]. destruct H as [_ [H [_ Hn]]].
    split; [exact Hn|]. intros k i Hl. rewrite H in Hl.
    destruct (lookup eqd k (P m)) as [j|]; [|discriminate].
    destruct (expiredWithNow (st_now m) j) eqn:He; [discriminate|]. inversion Hl; subst. auto.
  Qed.

  (* ... so Count equals the number of live entries *)
  Theorem count_after_deleteexpired m s : R m s ->
    let '(m1, _, _) := step m ODeleteExpired in
    snd (fst (step m1 OCount)) = CNat (length (live_keys eqd s)).
  Proof.
    intros HR.
    pose proof (sim_DeleteExpired eqd zero m s HR) as Hs.
    pose proof (after_delexp_all_live m (R_ndP eqd _ _ HR)) as Ha.
    destruct (step m ODeleteExpired) as [[m1 r] evs]. destruct Hs as [_ HR1]. cbn [spec_next] in HR1.
    destruct Ha as [Hn Ha].
    rewrite count_physical. cbn [fst snd]. f_equal.
    rewrite <- (map_length fst (P m1)). change (map fst (P m1)) with (keys (P m1)).
    apply Nat.le_antisymm.
    - apply NoDup_incl_length; [exact (R_ndP eqd _ _ HR1)|].
      intros k Hin. apply (in_keys_lookup eqd) in Hin. destruct Hin as [i Hi].
      unfold live_keys. apply filter_In. split.
      + pose proof (R_pt eqd _ _ HR1 k) as Hk. rewrite Hi in Hk. cbn in Hk. eapply lookup_in_keys; eauto.
      + rewrite (R_view eqd m1 s k HR1), Hi. destruct (Ha k i Hi) as [He _]. rewrite Hn, He. reflexivity.
    - apply NoDup_incl_length; [unfold live_keys; apply NoDup_filter; exact (R_ndL eqd _ _ HR1)|].
      intros k Hin. unfold live_keys in Hin. apply filter_In in Hin. destruct Hin as [_ Hv].
      rewrite (R_view eqd m1 s k HR1) in Hv.
      destruct (lookup eqd k (P m1)) as [i|] eqn:Hi; [|discriminate]. eapply lookup_in_keys; eauto.
  Qed.

  (* ---------- physical presence changes only where the call says so ---------- *)

  Definition names (o : cop K V) (k : K) : Prop :=
    match o with
    | OSet k' _ _ | OSetDefault k' _ | OSetForever k' _ | OGet k' | OGetWithExpiration k' | OGetWithTTL k'
    | OGetOrSet k' _ _ | OGetAndSet k' _ _ | OGetAndRefresh k' _ | OGetOrCompute k' _ _ | OCompute k' _ _
    | OGetAndDelete k' | ODelete k' => k' = k
    | ODeleteExpired | OClear => True
    | _ => False
    end.

  Ltac other_key k k0 Hne :=
    cbn; rewrite ?lookup_insert_neq, ?lookup_remove_neq by (intro; apply Hne; congruence); reflexivity.

  Theorem presence_stable m o k : ~ names o k ->
    let '(m', _, _) := step m o in lookup eqd k (P m') = lookup eqd k (P m).
  Proof.
    intros Hn. unfold step_cache, step_with, prog_cache.
    destruct o; cbn [names] in Hn; try (exfalso; apply Hn; exact I).
    - unfold Set_, expiration_prog.
      destruct (d =? DefaultExpiration); cbn [run_seq];
        [destruct (0 <? st_dflt m) | destruct (0 <? d)]; other_key k k0 Hn.
    - unfold SetDefault, Set_, expiration_prog.
      destruct (DefaultExpiration =? DefaultExpiration); cbn [run_seq];
        [destruct (0 <? st_dflt m) | destruct (0 <? DefaultExpiration)]; other_key k k0 Hn.
    - unfold SetForever, Set_, expiration_prog.
      destruct (NoExpiration =? DefaultExpiration); cbn [run_seq];
        [destruct (0 <? st_dflt m) | destruct (0 <? NoExpiration)]; other_key k k0 Hn.
    - unfold Get. rewrite run_seq_bind. unfold get. cbn [run_seq to_mop map_step].
      destruct (lookup eqd k0 (P m)) as [i|]; cbn [run_seq with_map st_now st_map]; [|reflexivity].
      destruct (expiredWithNow (st_now m) i); cbn [negb run_seq]; [|reflexivity].
      cbn [to_mop map_step with_map st_map]. unfold get_closure.
      destruct (lookup eqd k0 (P m)) as [j|]; [destruct (negb _)|]; other_key k k0 Hn.
    - unfold GetWithExpiration. rewrite run_seq_bind. unfold get. cbn [run_seq to_mop map_step].
      destruct (lookup eqd k0 (P m)) as [i|]; cbn [run_seq with_map st_now st_map]; [|reflexivity].
      destruct (expiredWithNow (st_now m) i); cbn [negb run_seq]; [|destruct (0 <? ie i); reflexivity].
      cbn [to_mop map_step with_map st_map]. unfold get_closure.
      destruct (lookup eqd k0 (P m)) as [j|]; [destruct (negb _) eqn:?|]; cbn;
        try destruct (0 <? ie j); other_key k k0 Hn.
    - unfold GetWithTTL. rewrite run_seq_bind. unfold get. cbn [run_seq to_mop map_step].
      destruct (lookup eqd k0 (P m)) as [i|]; cbn [run_seq with_map st_now st_map]; [|reflexivity].
      destruct (expiredWithNow (st_now m) i); cbn [negb run_seq]; [|destruct (0 <? ie i); reflexivity].
      cbn [to_mop map_step with_map st_map]. unfold get_closure.
      destruct (lookup eqd k0 (P m)) as [j|]; [destruct (negb _) eqn:?|]; cbn;
        try destruct (0 <? ie j); other_key k k0 Hn.
    - unfold GetOrSet. cbn [run_seq to_mop map_step].
      destruct (lookup eqd k0 (P m)) as [i|]; [destruct (negb _)|]; other_key k k0 Hn.
    - unfold GetAndSet. cbn [run_seq to_mop map_step].
      destruct (lookup eqd k0 (P m)) as [i|]; [destruct (negb _)|]; other_key k k0 Hn.
    - unfold GetAndRefresh. cbn [run_seq to_mop map_step].
      destruct (lookup eqd k0 (P m)) as [i|]; [destruct (negb _)|]; other_key k k0 Hn.
    - unfold GetOrCompute. cbn [run_seq to_mop map_step].
      destruct (lookup eqd k0 (P m)) as [i|]; [destruct (negb _)|]; other_key k k0 Hn.
    - unfold Compute. cbn [run_seq to_mop map_step].
      destruct (lookup eqd k0 (P m)) as [i|]; [destruct (negb _)|]; cbn;
        match goal with |- context [fn ?a ?b] => destruct (fn a b) as [? []] end; other_key k k0 Hn.
    - pose proof (fires_GetAndDelete eqd zero m k0) as H.
      destruct (run_seq eqd (GetAndDelete zero k0) m) as [[m' r] evs]. destruct H as [_ [H _]].
      rewrite H. rewrite lookup_remove_neq by (intro; apply Hn; congruence). reflexivity.
    - unfold Delete. rewrite run_seq_bind. pose proof (fires_GetAndDelete eqd zero m k0) as H.
      destruct (run_seq eqd (GetAndDelete zero k0) m) as [[m' r] evs]. destruct H as [_ [H _]]. cbn.
      rewrite H. rewrite lookup_remove_neq by (intro; apply Hn; congruence). reflexivity.
    - unfold Range. destruct f as [f|]; cbn [run_seq to_mop map_step]; [|reflexivity].
      rewrite C07_range.run_range_loop. reflexivity.
    - unfold Items, Range. cbn [run_seq to_mop map_step]. rewrite C07_range.run_range_loop. reflexivity.
    - reflexivity.
    - reflexivity.
    - reflexivity.
    - reflexivity.
    - reflexivity.
    - reflexivity.
  Qed.

End Count.
