(* X_own.v -- who may touch what (XMachine, MapOf):
     XT   table-index discipline in every reachable state: a thread only ever
          refers to tables that were current at some time (index <= m.table),
          except the one resizer, whose new table is the last one allocated and
          is not yet published; the resizer copies from the current table;
     step_chain_frame   (ownership) a step changes the cells of a bucket chain
          only if the stepping thread holds that bucket's lock, or the chain
          belongs to the resizer's own unpublished table. *)
From CacheV Require Import Base SpecMap XMachine.
From CacheV.proofs Require Import X_basic X_inv X_c13.
From Coq Require Import NArith.
Local Open Scope nat_scope.

Section Own.
  Context {K V : Type}.
  Variable eqd : forall a b : K, {a = b} + {a <> b}.
  Variable hash : K -> N -> N.
  Variable idx : N -> nat -> nat.
  Variable tag : N -> N.
  Variable nslots : nat.
  Variable seeds : nat -> N.
  Variable grow_needed : nat -> Z -> bool.
  Variable shrink_policy : nat -> Z -> bool.
  Variable probe : list (option N) -> N -> list nat.
  Variable nstripes : nat -> nat.
  Variable minlen : nat.
  Variable grow_only : bool.

  Hypothesis Hidx : forall h len, 0 < len -> idx h len < len.
  Hypothesis Hstripes : forall len, 0 < nstripes len.
  Hypothesis Hminlen : 0 < minlen.

  Notation xtable := (@xtable K V).
  Notation xstate := (@xstate K V).
  Notation pc := (@pc K V).
  Notation tab_at := (@tab_at K V nslots nstripes).
  Notation home := (@home K V hash idx).
  Notation step_pc := (@step_pc K V eqd hash idx tag nslots seeds grow_needed shrink_policy probe nstripes minlen grow_only).
  Notation xstep := (@xstep K V eqd hash idx tag nslots seeds grow_needed shrink_policy probe nstripes minlen grow_only).
  Notation xrun := (@xrun K V eqd hash idx tag nslots seeds grow_needed shrink_policy probe nstripes minlen grow_only).
  Notation XInv := (@X_inv.XInv K V hash idx nslots nstripes).
  Notation holds := (@holds K V hash idx nslots nstripes).
  Notation valid := (@valid K V hash idx nslots nstripes).

  (* ---------------- table indices in program counters ---------------- *)

  Fixpoint tabs_le (n : nat) (p : pc) : Prop :=
    match p with
    | PL_Meta _ _ tab _ _ | PL_Ent _ _ tab _ _ _ | PL_Next _ _ tab _ _ => tab <= n
    | PW_Lock _ tab | PW_ChkRes _ tab | PW_ChkTab _ tab | PW_D1 _ tab _ _ | PW_D2 _ tab _ _ | PW_U1 _ tab _ _ _
    | PW_I1 _ tab _ _ | PW_I2 _ tab _ _ | PW_Sum _ tab _ _ | PW_N1 _ tab _ => tab <= n
    | PW_Unlock tab _ after | PW_Add tab _ _ after => tab <= n /\ tabs_le n after
    | PR_FastSum known _ _ _ => known <= n
    | PR_ShSum _ tab _ _ | PR_Stat _ _ tab => tab <= n
    | PR_CpLock _ _ tab _ _ | PR_CpUnlock _ _ tab _ _ => tab <= n
    | PG_Lock tab _ | PG_Unlock tab _ _ => tab <= n
    | PS_Sum tab _ _ => tab <= n
    | _ => True
    end.

  Definition newtab (p : pc) : option nat :=
    match p with
    | PR_CpLock _ _ _ new _ | PR_CpUnlock _ _ _ new _ | PR_Publish _ new => Some new
    | _ => None
    end.

  (* the table a resizer reads from *)
  Definition srctab (p : pc) : option nat :=
    match p with
    | PR_CpLock _ _ tab _ _ | PR_CpUnlock _ _ tab _ _ | PR_Stat _ _ tab | PR_ShSum _ tab _ _ => Some tab
    | _ => None
    end.

  Record XT (s : xstate) : Prop := {
    xt_le : forall t, tabs_le (g_cur s) (g_pc s t);
    xt_new : forall t new, newtab (g_pc s t) = Some new -> S new = length (g_tabs s) /\ g_cur s < new;
    xt_src : forall t tab, srctab (g_pc s t) = Some tab -> tab = g_cur s;
  }.

  Lemma tabs_le_mono n m (p : pc) : n <= m -> tabs_le n p -> tabs_le m p.
  Proof. intros H. induction p; cbn; intros; try lia; auto. all: destruct H0; split; [lia | auto]. Qed.

  Lemma newtab_resizer (p : pc) new : newtab p = Some new -> resizer p = true.
  Proof. destruct p; cbn; intros; try discriminate; reflexivity. Qed.
  Lemma srctab_resizer (p : pc) tab : srctab p = Some tab -> resizer p = true.
  Proof. destruct p; cbn; intros; try discriminate; reflexivity. Qed.

  Lemma wake_tabs n (p : pc) : tabs_le n p -> tabs_le n (wake p).
  Proof. destruct p; cbn; auto. Qed.
  Lemma wake_newtab (p : pc) : newtab (wake p) = newtab p.
  Proof. destruct p; reflexivity. Qed.
  Lemma wake_srctab (p : pc) : srctab (wake p) = srctab p.
  Proof. destruct p; reflexivity. Qed.
  Lemma wake_resizer (p : pc) : resizer (wake p) = resizer p.
  Proof. destruct p; reflexivity. Qed.

  Lemma norm_tabs n (p : pc) : tabs_le n p -> tabs_le n (norm p).
  Proof. destruct p; cbn; auto. Qed.
  Lemma norm_newtab (p : pc) : newtab (norm p) = newtab p.
  Proof. destruct p; reflexivity. Qed.
  Lemma norm_srctab (p : pc) : srctab (norm p) = srctab p.
  Proof. destruct p; reflexivity. Qed.

  Lemma XT_move s S0 t q :
    XInv s -> XT s ->
    g_cur s <= g_cur S0 ->
    (forall t', g_pc S0 t' = g_pc s t' \/ g_pc S0 t' = wake (g_pc s t')) ->
    tabs_le (g_cur S0) q ->
    (forall new, newtab q = Some new -> S new = length (g_tabs S0) /\ g_cur S0 < new) ->
    (forall tab, srctab q = Some tab -> tab = g_cur S0) ->
    ((g_cur S0 = g_cur s /\ length (g_tabs S0) = length (g_tabs s)) \/ resizer (g_pc s t) = true) ->
    XT (set_pc S0 t (norm q)).
  Proof.
    intros HI HT Hcur Hpc Hle Hnew Hsrc Hsame.
    assert (Hoth : forall t', t' <> t -> resizer (g_pc s t') = true ->
                              g_cur S0 = g_cur s /\ length (g_tabs S0) = length (g_tabs s)).
    { intros t' Hne Hr. destruct Hsame as [H|H]; [exact H|]. exfalso. apply Hne. apply (xi_rzB _ _ _ _ s HI t' t Hr H). }
    constructor; cbn [set_pc g_pc g_cur g_tabs].
    - intros t'. destruct (Nat.eq_dec t' t); [apply norm_tabs; exact Hle|].
      apply (tabs_le_mono (g_cur s)); [exact Hcur|].
      destruct (Hpc t') as [E|E]; rewrite E; [|apply wake_tabs]; apply (xt_le s HT).
    - intros t' new. destruct (Nat.eq_dec t' t); [rewrite norm_newtab; apply Hnew|].
      intros E. assert (E0 : newtab (g_pc s t') = Some new).
      { destruct (Hpc t') as [E1|E1]; rewrite E1 in E; [exact E | rewrite wake_newtab in E; exact E]. }
      destruct (Hoth t' n (newtab_resizer _ _ E0)) as [A B]. rewrite A, B. apply (xt_new s HT t' new E0).
    - intros t' tab. destruct (Nat.eq_dec t' t); [rewrite norm_srctab; apply Hsrc|].
      intros E. assert (E0 : srctab (g_pc s t') = Some tab).
      { destruct (Hpc t') as [E1|E1]; rewrite E1 in E; [exact E | rewrite wake_srctab in E; exact E]. }
      destruct (Hoth t' n (srctab_resizer _ _ E0)) as [A B]. rewrite A. apply (xt_src s HT t' tab E0).
  Qed.

  Lemma some_fst3 {A B} (g : A * B) a b : Some g = Some (a, b) -> a = fst g.
  Proof. intros H. inversion H. reflexivity. Qed.

  Ltac step_cases Hs :=
    cbn [XMachine.step_pc] in Hs; cbv zeta in Hs;
    repeat match type of Hs with
           | context [match ?x with _ => _ end] => destruct x eqn:?
           end;
    try discriminate; apply some_fst3 in Hs; subst; rewrite ?goto_state'; cbn [fst].

  Lemma quiet_newtab (p : pc) : quiet hash idx nslots nstripes p -> newtab p = None /\ srctab p = None.
  Proof.
    intros [_ [_ Q]]. split.
    - destruct (newtab p) eqn:E; [|reflexivity]. apply newtab_resizer in E. congruence.
    - destruct (srctab p) eqn:E; [|reflexivity]. apply srctab_resizer in E. congruence.
  Qed.

  Theorem XT_step_pc s t p s' ls : XInv s -> XT s -> g_pc s t = p -> step_pc s t p = Some (s', ls) -> XT s'.
  Proof.
    intros HI HT Hp Hs.
    pose proof (xt_le s HT t) as Hle. pose proof (xt_new s HT t) as Hnew. pose proof (xt_src s HT t) as Hsrc.
    pose proof (xi_valid _ _ _ _ s HI t) as Hv. pose proof (xi_cur _ _ _ _ s HI) as Hcur.
    rewrite Hp in Hle, Hnew, Hsrc, Hv.
    destruct p; step_cases Hs;
      try change (set_pc s t PIdle) with (set_pc s t (norm (@PIdle K V)));
      (apply (XT_move s _ t _ HI HT);
       [ cbn [g_cur set_tab set_flags push_tab]; try lia
       | intros t'; cbn [g_pc set_tab set_flags push_tab]; first [left; reflexivity | right; reflexivity]
       | cbn [tabs_le g_cur set_tab set_flags push_tab] in *; try tauto; try lia
       | cbn [newtab]; try (intros ? E; discriminate E)
       | cbn [srctab]; try (intros ? E; discriminate E)
       | rewrite ?Hp; cbn [resizer g_cur g_tabs set_tab set_flags push_tab]; rewrite ?upd_nth_length; first [left; split; reflexivity | right; reflexivity | idtac] ]).
    all: cbn [valid tabs_le] in *.
    all: try match goal with
             | Hq : _ /\ _ /\ _ /\ quiet _ _ _ _ ?a |- _ =>
                 let Q := fresh "Q" in destruct Hq as [_ [_ [_ Q]]]; apply quiet_newtab in Q; destruct Q as [Q1 Q2];
                 first [ rewrite Q1; intros ? E; discriminate E | rewrite Q2; intros ? E; discriminate E ]
             end.
    all: try match goal with |- context [run_cont ?kt] => destruct kt; cbn; try tauto; try (intros ? E; discriminate E) end.
    all: cbn [g_cur g_tabs set_tab set_flags push_tab newtab srctab] in *;
         rewrite ?upd_nth_length, ?app_length; cbn [length];
         try (intros ? E; inversion E; subst; clear E).
    all: try (specialize (Hnew _ eq_refl)); try (specialize (Hsrc _ eq_refl)); try lia; try (split; lia).
  Qed.


  Lemma start_tabs o n : tabs_le n (@start_pc K V o) /\ newtab (start_pc o) = None /\ srctab (start_pc o) = None
                         /\ norm (start_pc o) = start_pc o.
  Proof. destruct o; cbn; auto. destruct lie; cbn; auto. Qed.

  Lemma XT_xstep s t s' ls : XInv s -> XT s -> xstep s t = Some (s', ls) -> XT s'.
  Proof.
    intros HI HT Hs. unfold XMachine.xstep in Hs.
    destruct (g_pc s t) eqn:Hp; try (eapply XT_step_pc; [exact HI | exact HT | exact Hp | exact Hs]).
    destruct (g_todo s t) as [|o rest]; [discriminate|].
    set (S0 := {| g_tabs := g_tabs s; g_cur := g_cur s; g_resizing := g_resizing s; g_rmu := g_rmu s;
                  g_growths := g_growths s; g_shrinks := g_shrinks s; g_pc := g_pc s;
                  g_todo := fun t' => if Nat.eq_dec t' t then rest else g_todo s t' |}).
    destruct (start_tabs o (g_cur s)) as [Q1 [Q2 [Q3 Q4]]].
    assert (HT1 : XT (set_pc S0 t (start_pc o))).
    { rewrite <- Q4. apply (XT_move s S0 t _ HI HT); cbn [S0 g_cur g_tabs g_pc]; auto.
      - rewrite Q2. intros ? E; discriminate E.
      - rewrite Q3. intros ? E; discriminate E. }
    assert (HI1 : XInv (set_pc S0 t (start_pc o))).
    { destruct (start_pc_quiet hash idx nslots nstripes o) as [R1 [R2 [R3 R4]]].
      eapply (move_pure hash idx nslots nstripes minlen Hminlen); [exact HI | | apply R4 | rewrite Hp; apply R1 | rewrite Hp; exact R2 | rewrite Hp; exact R3].
      unfold same_protocol. split; [split; [cbn; lia | intros; apply shape_refl]|]. repeat split; auto. }
    change (match step_pc (set_pc S0 t (start_pc o)) t (start_pc o) with
            | Some (s2, ls0) => Some (s2, XMachine.XInv t o :: ls0)
            | None => Some (set_pc S0 t (start_pc o), [XMachine.XInv t o])
            end = Some (s', ls)) in Hs.
    destruct (step_pc (set_pc S0 t (start_pc o)) t (start_pc o)) as [[s2 ls0]|] eqn:E.
    - inversion Hs; subst. eapply XT_step_pc; [exact HI1 | exact HT1 | | exact E].
      cbn [set_pc g_pc]. destruct (Nat.eq_dec t t); congruence.
    - inversion Hs; subst. exact HT1.
  Qed.

  Lemma XT_init len0 todo : XT (xinit nslots seeds nstripes len0 todo).
  Proof. constructor; cbn; intros; try discriminate; auto. Qed.


  (* ---------------- ownership of bucket chains ---------------- *)

  Lemma chain_set_tab (s : xstate) tab0 f tab b : tab0 < length (g_tabs s) ->
    chain_of (tab_at (set_tab s tab0 f) tab) b =
    if Nat.eq_dec tab tab0 then chain_of (f (tab_at s tab0)) b else chain_of (tab_at s tab) b.
  Proof. intros H. rewrite (tab_at_set_tab nslots nstripes s tab0 f tab H). destruct (Nat.eq_dec tab tab0); reflexivity. Qed.

  Lemma chain_of_set_chain (tb : xtable) b0 g b :
    chain_of (set_chain tb b0 g) b =
    if Nat.eq_dec b b0 then (if Nat.ltb b0 (x_len tb) then g (chain_of tb b0) else []) else chain_of tb b.
  Proof. unfold chain_of, set_chain, x_len. cbn [x_chains]. apply nth_upd_nth. Qed.

  Theorem step_chain_frame s t p s' ls : XInv s -> g_pc s t = p -> step_pc s t p = Some (s', ls) ->
    forall tab b, tab < length (g_tabs s) ->
      chain_of (tab_at s' tab) b = chain_of (tab_at s tab) b
      \/ holds s p = Some (tab, b)
      \/ newtab p = Some tab.
  Proof.
    intros HI Hp Hs tab' b' Htab'.
    pose proof (xi_valid _ _ _ _ s HI t) as Hv. rewrite Hp in Hv.
    destruct p; step_cases Hs; try (left; reflexivity).
    all: cbn [valid] in Hv.
    all: try (rewrite tab_at_set_pc, chain_set_tab by tauto;
              destruct (Nat.eq_dec tab' tab); [subst tab'|left; reflexivity];
              first [ left; reflexivity
                    | rewrite chain_of_set_chain;
                      match goal with |- context [Nat.eq_dec ?a ?b0] => destruct (Nat.eq_dec a b0) as [->|]; [right; left; reflexivity | left; reflexivity] end ]).
    all: try (left; rewrite ?tab_at_set_pc; unfold XMachine.tab_at at 1; cbn [g_tabs push_tab];
              rewrite app_nth1 by exact Htab'; reflexivity).
    - (* PR_CpLock *)
      destruct Hv as (Hv1 & Hv2 & Hv3 & Hv4).
      rewrite tab_at_set_pc. rewrite chain_set_tab by (unfold set_tab; cbn [g_tabs]; rewrite upd_nth_length; exact Hv2).
      destruct (Nat.eq_dec tab' new); [right; right; cbn; congruence|].
      rewrite chain_set_tab by exact Hv1. destruct (Nat.eq_dec tab' tab) as [->|]; left; reflexivity.
  Qed.


  (* ---------------- all invariants so far, every reachable state ---------------- *)

  Definition XI3 (s : xstate) : Prop := XInv s /\ XW s /\ XT s.

  Lemma XI3_xstep s t s' ls : XI3 s -> xstep s t = Some (s', ls) -> XI3 s'.
  Proof.
    intros [HI [HW HT]] E. split; [|split].
    - eapply (xstep_inv eqd hash idx tag nslots seeds grow_needed shrink_policy probe nstripes minlen grow_only Hidx Hstripes Hminlen); eassumption.
    - eapply XW_xstep; try eassumption.
    - eapply XT_xstep; eassumption.
  Qed.

  Theorem xrun_inv3 sched : forall s, XI3 s -> XI3 (fst (xrun s sched)).
  Proof.
    induction sched as [|t rest IH]; intros s H; cbn [XMachine.xrun]; [exact H|].
    destruct (xstep s t) as [[s' ls]|] eqn:E.
    - specialize (IH s' (XI3_xstep s t s' ls H E)).
      destruct (XMachine.xrun _ _ _ _ _ _ _ _ _ _ _ _ s' rest) as [s'' ls']. exact IH.
    - apply IH. exact H.
  Qed.

  Theorem reachable_inv3 len0 todo sched : 0 < len0 -> XI3 (fst (xrun (xinit nslots seeds nstripes len0 todo) sched)).
  Proof.
    intros Hl. apply xrun_inv3. split; [apply (xinit_inv hash idx nslots seeds nstripes minlen Hstripes Hminlen); assumption|].
    split; [apply XW_init | apply XT_init].
  Qed.

  (* ---------------- C14: every write to a chain is owned ---------------- *)

  Lemma xstep_chain_frame s t s' ls : XInv s -> xstep s t = Some (s', ls) ->
    forall tab b, tab < length (g_tabs s) ->
      chain_of (tab_at s' tab) b = chain_of (tab_at s tab) b
      \/ holds s (g_pc s t) = Some (tab, b)
      \/ newtab (g_pc s t) = Some tab.
  Proof.
    intros HI Hs tab b Htab. unfold XMachine.xstep in Hs.
    destruct (g_pc s t) eqn:Hp; try (eapply step_chain_frame; [exact HI | exact Hp | exact Hs | exact Htab]).
    destruct (g_todo s t) as [|o rest]; [discriminate|].
    set (S0 := {| g_tabs := g_tabs s; g_cur := g_cur s; g_resizing := g_resizing s; g_rmu := g_rmu s;
                  g_growths := g_growths s; g_shrinks := g_shrinks s; g_pc := g_pc s;
                  g_todo := fun t' => if Nat.eq_dec t' t then rest else g_todo s t' |}).
    destruct (start_pc_quiet hash idx nslots nstripes o) as [R1 [R2 [R3 R4]]].
    destruct (start_tabs o 0) as [_ [Q2 _]].
    assert (HI1 : XInv (set_pc S0 t (start_pc o))).
    { eapply (move_pure hash idx nslots nstripes minlen Hminlen); [exact HI | | apply R4 | rewrite Hp; apply R1 | rewrite Hp; exact R2 | rewrite Hp; exact R3].
      unfold same_protocol. split; [split; [cbn; lia | intros; apply shape_refl]|]. repeat split; auto. }
    change (match step_pc (set_pc S0 t (start_pc o)) t (start_pc o) with
            | Some (s2, ls0) => Some (s2, XMachine.XInv t o :: ls0)
            | None => Some (set_pc S0 t (start_pc o), [XMachine.XInv t o])
            end = Some (s', ls)) in Hs.
    destruct (step_pc (set_pc S0 t (start_pc o)) t (start_pc o)) as [[s2 ls0]|] eqn:E.
    - inversion Hs; subst. left.
      assert (Epc : g_pc (set_pc S0 t (start_pc o)) t = start_pc o) by (cbn [set_pc g_pc]; destruct (Nat.eq_dec t t); congruence).
      destruct (step_chain_frame _ t _ s' ls0 HI1 Epc E tab b Htab) as [H|[H|H]].
      + exact H.
      + rewrite R1 in H. discriminate.
      + rewrite Q2 in H. discriminate.
    - inversion Hs; subst. left. reflexivity.
  Qed.

  (* the step of thread t from s changed the cells of chain (tab, b): then t held
     that bucket's lock, or the table is t's own unpublished one, which no other
     thread refers to *)
  Theorem write_ownership s t s' ls tab b : XI3 s -> xstep s t = Some (s', ls) ->
    tab < length (g_tabs s) -> chain_of (tab_at s' tab) b <> chain_of (tab_at s tab) b ->
    lock_of (tab_at s tab) b = Some t
    \/ (g_cur s < tab /\ S tab = length (g_tabs s)
        /\ forall t', t' <> t -> tabs_le (g_cur s) (g_pc s t') /\ newtab (g_pc s t') = None).
  Proof.
    intros [HI [HW HT]] E Htab Hch.
    destruct (xstep_chain_frame s t s' ls HI E tab b Htab) as [H|[H|H]]; [contradiction | left | right].
    - apply (xi_lockA _ _ _ _ s HI t tab b H).
    - destruct (xt_new s HT t tab H) as [A B]. split; [exact B|]. split; [exact A|].
      intros t' Hne. split; [apply (xt_le s HT)|].
      destruct (newtab (g_pc s t')) eqn:En; [|reflexivity]. exfalso. apply Hne.
      apply (xi_rzB _ _ _ _ s HI t' t); eapply newtab_resizer; eassumption.
  Qed.

End Own.

(* ---------------- the statements of props/C14.v ---------------- *)
Section Final.
  Context {K V : Type}.
  Variable eqd : forall a b : K, {a = b} + {a <> b}.
  Variable hash : K -> N -> N.
  Variable idx : N -> nat -> nat.
  Variable tag : N -> N.
  Variable nslots : nat.
  Variable seeds : nat -> N.
  Variable grow_needed shrink_policy : nat -> Z -> bool.
  Variable probe : list (option N) -> N -> list nat.
  Variable nstripes : nat -> nat.
  Variable minlen : nat.
  Variable grow_only : bool.

  Notation xrun := (@xrun K V eqd hash idx tag nslots seeds grow_needed shrink_policy probe nstripes minlen grow_only).
  Notation xstep := (@xstep K V eqd hash idx tag nslots seeds grow_needed shrink_policy probe nstripes minlen grow_only).
  Notation tab_at := (@tab_at K V nslots nstripes).

  Lemma write_ownership_proof :
    xhyps idx nstripes minlen -> forall len0 todo sched t s' ls tab b, 0 < len0 ->
    let s := fst (xrun (xinit nslots seeds nstripes len0 todo) sched) in
    xstep s t = Some (s', ls) ->
    tab < length (g_tabs s) -> chain_of (tab_at s' tab) b <> chain_of (tab_at s tab) b ->
    lock_of (tab_at s tab) b = Some t
    \/ (g_cur s < tab /\ S tab = length (g_tabs s)
        /\ forall t', t' <> t -> tabs_le (g_cur s) (g_pc s t') /\ newtab (g_pc s t') = None).
  Proof.
    intros [H1 [H2 H3]] len0 todo sched t s' ls tab b Hl s E Htab Hch.
    eapply (write_ownership eqd hash idx tag nslots seeds grow_needed shrink_policy probe nstripes minlen grow_only); try exact H3; try eassumption.
    apply (reachable_inv3 eqd hash idx tag nslots seeds grow_needed shrink_policy probe nstripes minlen grow_only H1 H2 H3 len0 todo sched Hl).
  Qed.

  Lemma table_discipline_proof :
    xhyps idx nstripes minlen -> forall len0 todo sched, 0 < len0 ->
    XT (fst (xrun (xinit nslots seeds nstripes len0 todo) sched)).
  Proof.
    intros [H1 [H2 H3]] len0 todo sched Hl.
    apply (reachable_inv3 eqd hash idx tag nslots seeds grow_needed shrink_policy probe nstripes minlen grow_only H1 H2 H3 len0 todo sched Hl).
  Qed.
End Final.
