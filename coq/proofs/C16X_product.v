(* C16X_product.v -- C16 at the cache level: the generic part.  C08X_product.solo_answer with an
   explicit BOUND on the number of moves and with the map-level projection of the trace (the only map
   call made is the one in flight): [solo_answer_b]; an idle thread whose next cache method starts
   with a map call, run alone: [solo_invoke_answer]. *)
From CacheV Require Import Base SpecMap Client Ops Lin Conc.
From CacheV.proofs Require Import CX_trans CX_compose CX_product C08X_product.
Local Open Scope nat_scope.
Local Arguments p_x {K V XS} p.
Local Arguments p_thr {K V XS} p _.
Local Arguments p_todo {K V XS} p _.

Section Reads.
  Context {K V : Type}.
  Variable progs : cop K V -> prog K V (cres K V).
  Variables NOW DFLT : Z.
  Variable CB : cbid.

  Notation item := (item V).
  Notation cop := (cop K V).
  Notation cres := (cres K V).
  Notation cmop := (cmop K V).
  Notation imres := (imres K V).

  Variables XS XO XR : Type.
  Variable step : XS -> nat -> option (XS * list (hev XO XR)).
  Variable todo : XS -> nat -> list XO.
  Variable wtodo : XS -> (nat -> list XO) -> XS.
  Variable idle : XS -> nat -> Prop.
  Variable xinit : (nat -> list XO) -> XS.
  Variable tr : cmop -> XO.
  Variable bk : cmop -> XR -> imres.
  Variable sup : cmop -> bool.

  Notation mrun := (mrun XS XO XR step).
  Notation pconf := (@pconf K V XS).
  Notation pstep := (pstep progs NOW DFLT CB XS XO XR step todo wtodo tr bk sup).
  Notation prun := (prun progs NOW DFLT CB XS XO XR step todo wtodo tr bk sup).
  Notation PI := (PI XS XO todo idle tr sup).
  Notation push := (push XS XO todo wtodo).
  Notation pinit := (pinit XS XO xinit).
  Notation pset := (pset XS).

  Lemma upd_same {X} (f : nat -> X) t x : upd f t x t = x.
  Proof. unfold upd. destruct (Nat.eq_dec t t); congruence. Qed.
  Lemma upd_other {X} (f : nat -> X) t x t' : t' <> t -> upd f t x t' = f t'.
  Proof. unfold upd. destruct (Nat.eq_dec t' t); congruence. Qed.

  Hypothesis H_todo_w : forall s td t, todo (wtodo s td) t = td t.
  Hypothesis H_idle_w : forall s td t, idle (wtodo s td) t <-> idle s t.
  Hypothesis H_ww : forall s a b, wtodo (wtodo s a) b = wtodo s b.
  Hypothesis H_wid : forall s, wtodo s (todo s) = s.
  Hypothesis H_init_todo : forall td t, todo (xinit td) t = td t.
  Hypothesis H_init_idle : forall td t, idle (xinit td) t.
  Hypothesis H_init_w : forall a b, wtodo (xinit a) b = xinit b.

  Hypothesis H_frame : forall s t s' h td fut,
    step s t = Some (s', h) -> (forall u, td u = todo s u ++ fut u) ->
    exists td', step (wtodo s td) t = Some (wtodo s' td', h) /\ forall u, td' u = todo s' u ++ fut u.

  Hypothesis H_proto : forall s t s' h, step s t = Some (s', h) ->
    (forall u, u <> t -> todo s' u = todo s u /\ (idle s u -> idle s' u))
    /\ ( (idle s t /\ h = [] /\ idle s' t /\ todo s' t = todo s t)
         \/ (idle s t /\ exists o rest, todo s t = o :: rest /\ todo s' t = rest
                        /\ (h = [HInv t o] \/ exists r, h = [HInv t o; HRes t r] /\ idle s' t))
         \/ (~ idle s t /\ todo s' t = todo s t /\ (h = [] \/ exists r, h = [HRes t r] /\ idle s' t)) ).

  Notation pstep_ok := (pstep_ok progs NOW DFLT CB XS XO XR step todo wtodo idle tr bk sup H_todo_w H_idle_w H_proto).
  Notation prun_cons := (prun_cons progs NOW DFLT CB XS XO XR step todo wtodo tr bk sup).
  Notation mrun_cons := (mrun_cons XS XO XR step).


  Notation mproj := (@mproj K V).

  (* what the thread's map call contributes to the map-level projection of the combined trace *)
  Definition expect (t : nat) (q : @qst K V) (mo : cmop) (r : XR) : list (hev cmop imres) :=
    match q with
    | QPushed _ _ _ => [HInv t mo; HRes t (bk mo r)]
    | QWait _ _ _ => [HRes t (bk mo r)]
    | _ => []
    end.

  (* after j moves of thread t alone from p: nothing at the cache level, the map call and its answer at the map level,
     the thread continues with the answer, nobody else has moved *)
  Definition answered (t : nat) (p : pconf) o mo k r (bound j : nat) : Prop :=
    let p' := fst (fst (prun p (repeat (t, []) j))) in
    j <= bound
    /\ cproj (snd (fst (prun p (repeat (t, []) j)))) = []
    /\ mproj (snd (fst (prun p (repeat (t, []) j)))) = expect t (p_thr p t) mo r
    /\ p_thr p' t = QRun o (k (bk mo r))
    /\ (forall u, u <> t -> p_thr p' u = p_thr p u) /\ p_todo p' = p_todo p /\ PI p'.

  Lemma quiet_silentR t m : forall s, idle s t -> todo s t = [] -> snd (mrun s (repeat t m)) = [].
  Proof. exact (quiet_silent XS XO XR step todo idle H_proto t m). Qed.

  Theorem solo_answer_b t m : forall (p : pconf) o mo k r,
    PI p -> in_call (p_thr p t) o mo k ->
    In (HRes t r) (snd (mrun (p_x p) (repeat t m))) ->
    exists j, answered t p o mo k r m j.
  Proof.
    induction m as [|m IH]; intros p o mo k r HP Hq Hin; [cbn in Hin; contradiction|].
    cbn [repeat] in Hin. rewrite mrun_cons in Hin.
    assert (Hps : pstep p t [] = xmove XS XO XR step bk p t).
    { unfold CX_product.pstep. destruct Hq as [-> | ->]; reflexivity. }
    destruct (step (p_x p) t) as [[x1 h1]|] eqn:Es.
    2:{ destruct (IH p o mo k r HP Hq Hin) as [j [A B]]. exists j. split; [lia | exact B]. }
    cbn [snd] in Hin.
    assert (Hmv : exists q' os, pstep p t [] = Some ({| p_x := x1; p_thr := upd (p_thr p) t q'; p_todo := p_todo p |}, os, h1)
                                /\ feeds XO XR bk t (p_thr p t) h1 = (q', os)).
    { rewrite Hps. unfold xmove. rewrite Es. destruct (feeds XO XR bk t (p_thr p t) h1) as [q' os]. eauto. }
    destruct Hmv as [q' [os [Emv Efd]]].
    set (p1 := {| p_x := x1; p_thr := upd (p_thr p) t q'; p_todo := p_todo p |}) in *.
    destruct (pstep_ok p t [] p1 os h1 HP Emv) as [HP1 _].
    assert (Hcont : in_call q' o mo k -> cproj os = [] -> mproj os ++ expect t q' mo r = expect t (p_thr p t) mo r ->
              In (HRes t r) (snd (mrun x1 (repeat t m))) -> exists j, answered t p o mo k r (S m) j).
    { intros Hq' Hos Hmo Hin'.
      destruct (IH p1 o mo k r HP1) as [j [Hj [A [M [B [C [D F]]]]]]].
      - unfold p1; cbn [p_thr]. rewrite upd_same. exact Hq'.
      - exact Hin'.
      - exists (S j). unfold answered. cbn [repeat]. rewrite prun_cons, Emv. cbn [fst snd]. rewrite cproj_app, Hos, A, mproj_app, M.
        unfold p1 at 1; cbn [p_thr]. rewrite upd_same.
        split; [lia|]. split; [reflexivity|]. split; [exact Hmo|]. split; [exact B|]. split; [|split; [exact D | exact F]].
        intros u Hu. rewrite (C u Hu). unfold p1; cbn [p_thr]. apply upd_other. exact Hu. }
    assert (Hdone : forall r', q' = QRun o (k (bk mo r')) -> cproj os = [] -> mproj os = expect t (p_thr p t) mo r' -> r' = r ->
              exists j, answered t p o mo k r (S m) j).
    { intros r' Eq Hos Hmo ->. exists 1. unfold answered. cbn [repeat]. rewrite prun_cons, Emv. cbn [CX_product.prun fst snd]. rewrite app_nil_r.
      split; [lia|]. split; [exact Hos|]. split; [exact Hmo|]. split; [unfold p1; cbn [p_thr]; rewrite upd_same; exact Eq|].
      split; [intros u Hu; unfold p1; cbn [p_thr]; apply upd_other; exact Hu|]. split; [reflexivity | exact HP1]. }
    pose proof (HP t) as Hpt.
    destruct (H_proto _ _ _ _ Es) as [_ Hc].
    destruct Hq as [Eq|Eq]; rewrite Eq in Hpt, Efd; rewrite Eq in Hcont, Hdone.
    - destruct Hpt as [Htd [Hid _]].
      destruct Hc as [[_ [Eh [Hid1 Htd1]]]|[[_ [xo [rest [Etd [Etd1 Eh]]]]]|[Hni _]]]; [| |contradiction].
      + subst h1. cbn in Efd. inversion Efd; subst q' os. apply Hcont; [left; reflexivity | reflexivity | reflexivity | exact Hin].
      + rewrite Htd in Etd. injection Etd as Exo Erest. rewrite <- Erest in Etd1. clear Erest. subst xo.
        destruct Eh as [Eh|[r' [Eh Hid1]]]; subst h1; cbn in Efd; inversion Efd; subst q' os.
        * apply Hcont; [right; reflexivity | reflexivity | reflexivity|]. cbn in Hin. destruct Hin as [Hin|Hin]; [discriminate Hin | exact Hin].
        * assert (r' = r).
          { rewrite (quiet_silentR t m x1 Hid1 Etd1) in Hin. cbn in Hin.
            destruct Hin as [Hin|[Hin|[]]]; [discriminate Hin | inversion Hin; reflexivity]. }
          subst r'. apply (Hdone r); reflexivity.
    - destruct Hpt as [Htd _].
      destruct Hc as [[_ [Eh [Hid1 Htd1]]]|[[_ [xo [rest [Etd _]]]]|[Hni [Htd1 [Eh|[r' [Eh Hid1]]]]]]].
      + subst h1. cbn in Efd. inversion Efd; subst q' os. apply Hcont; [right; reflexivity | reflexivity | reflexivity | exact Hin].
      + rewrite Htd in Etd. discriminate Etd.
      + subst h1. cbn in Efd. inversion Efd; subst q' os. apply Hcont; [right; reflexivity | reflexivity | reflexivity | exact Hin].
      + subst h1. cbn in Efd. inversion Efd; subst q' os.
        assert (r' = r).
        { rewrite (quiet_silentR t m x1 Hid1) in Hin by (rewrite Htd1; exact Htd). cbn in Hin.
          destruct Hin as [Hin|[]]. inversion Hin; reflexivity. }
        subst r'. apply (Hdone r); reflexivity.
  Qed.

  (* an idle thread whose next cache method starts with a map call: the invocation, the hand-over, the answer *)
  Theorem solo_invoke_answer t m (p : pconf) o rest mo k r :
    PI p -> p_thr p t = QIdle -> p_todo p t = o :: rest ->
    progs o = MapCall mo k -> mo <> CSnapshot -> sup mo = true ->
    In (HRes t r) (snd (mrun (push (p_x p) t (tr mo)) (repeat t m))) ->
    exists j, let p' := fst (fst (prun p (repeat (t, []) j))) in
      j <= m + 2
      /\ cproj (snd (fst (prun p (repeat (t, []) j)))) = [HInv t o]
      /\ mproj (snd (fst (prun p (repeat (t, []) j)))) = [HInv t mo; HRes t (bk mo r)]
      /\ p_thr p' t = QRun o (k (bk mo r)) /\ p_todo p' t = rest
      /\ (forall u, u <> t -> p_thr p' u = p_thr p u) /\ PI p'.
  Proof.
    intros HP Eq Etd Epr Hns Hsup Hin.
    set (p1 := {| p_x := p_x p; p_thr := upd (p_thr p) t (QRun o (progs o)); p_todo := upd (p_todo p) t rest |}).
    assert (E1 : pstep p t [] = Some (p1, [OC (HInv t o)], [])).
    { unfold CX_product.pstep. rewrite Eq, Etd. reflexivity. }
    destruct (pstep_ok p t [] p1 _ _ HP E1) as [HP1 _].
    set (p2 := {| p_x := push (p_x p) t (tr mo); p_thr := upd (p_thr p1) t (QPushed o mo k); p_todo := p_todo p1 |}).
    assert (E2 : pstep p1 t [] = Some (p2, [], [])).
    { unfold CX_product.pstep. unfold p1 at 1; cbn [p_thr]. rewrite upd_same, Epr.
      destruct mo; try (exfalso; apply Hns; reflexivity); rewrite Hsup; reflexivity. }
    destruct (pstep_ok p1 t [] p2 _ _ HP1 E2) as [HP2 _].
    destruct (solo_answer_b t m p2 o mo k r HP2) as [j [Hj [A [M [B [C [D F]]]]]]].
    { left. unfold p2; cbn [p_thr]. apply upd_same. }
    { exact Hin. }
    exists (S (S j)).
    change (repeat (t, @nil (K * item)) (S (S j))) with ((t, @nil (K * item)) :: (t, []) :: repeat (t, []) j).
    rewrite prun_cons, E1. cbn [fst snd]. rewrite prun_cons, E2. cbn [fst snd].
    cbn [app CX_compose.cproj CX_compose.mproj]. rewrite A, M. unfold p2 at 1; cbn [p_thr]. rewrite upd_same. cbn [expect].
    split; [lia|]. split; [reflexivity|]. split; [reflexivity|]. split; [exact B|]. split.
    - rewrite D. unfold p2, p1; cbn [p_todo]. apply upd_same.
    - split; [|exact F]. intros u Hu. rewrite (C u Hu). unfold p2, p1; cbn [p_thr]. rewrite !upd_other by exact Hu. reflexivity.
  Qed.

End Reads.
