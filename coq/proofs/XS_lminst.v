(* XS_lminst.v -- the executable instance of XMachineS (XExecS) has the reader
   theorems of XS_loadmiss.v (oracle hashes being 64-bit values); non-vacuity:
   (a) a reader before the first word of the chain with its key visible, an update
       racing its snapshot (the reader retries the same slot and returns the new value);
   (b) a reader before the first word of the chain, a delete in between: the reader
       reaches the end of the chain and returns "absent"; the key is not visible then. *)
From CacheV Require Import Base SpecMap XMachineS TabExec Exec XExec XExecS.
From CacheV.gen Require Import Params.
From CacheV.proofs Require Import X_maps X_inst XS_lock XS_inv XS_own XS_count XS_inst XS_cells XS_vis XS_abs XS_cinst XS_read XS_loadhit XS_lhinst XS_loadmiss.
From Coq Require Import NArith Lia.

Notation s_srunM o seeds hint :=
  (srun zeqd (hash_of o) idx_map tag_map (nslots_of false) (seeds_of seeds) grow_needed_s shrink_policy_s
        nstripes_x (minlen_of_hint false hint) false).
Notation s_salongM o seeds hint :=
  (salong zeqd (hash_of o) idx_map tag_map (nslots_of false) (seeds_of seeds) grow_needed_s shrink_policy_s
          nstripes_x (minlen_of_hint false hint) false).
Notation s_severM o seeds hint :=
  (sever zeqd (hash_of o) idx_map tag_map (nslots_of false) (seeds_of seeds) grow_needed_s shrink_policy_s
         nstripes_x (minlen_of_hint false hint) false).

(* the extracted Map machine, every schedule: from a reachable state in which thread t is about to load the first bucket word of
   the chain, while it stays inside its lookup of k in table tab and k is visible in that table in every state of the run,
   the next step of t does not reach the end of the chain *)
Theorem s_machine_load_no_miss (o : oracle) (seeds : list N) (hint : Z) (todo : nat -> list sop_z) (sched0 sched : list nat)
        t k lc tab s2 ls2 : oracle64 o ->
  let s := fst (s_srunM o seeds hint (s_machine_init seeds hint todo) sched0) in
  s_salongM o seeds hint (stays (hash_of o) idx_map tag_map (nslots_of false) nstripes_x t k lc tab) s sched ->
  (exists k' lc' tab' h, h_pc s t = QL_Top k' lc' tab' h 0) ->
  s_machine_step o seeds hint (fst (s_srunM o seeds hint s sched)) t = Some (s2, ls2) ->
  ~ endchain t (fst (s_srunM o seeds hint s sched)) ls2.
Proof.
  intros Ho. unfold s_machine_init, s_machine_step.
  apply (s_load_no_miss_proof zeqd (hash_of o) idx_map tag_map (nslots_of false) (seeds_of seeds) grow_needed_s shrink_policy_s nstripes_x
           (minlen_of_hint false hint) false (s_instance_lhhyps o hint Ho)).
  apply minlen_of_hint_pos.
Qed.

(* a lookup that reaches the end of the chain: k was not visible in table tab in some state of the run *)
Theorem s_machine_load_miss (o : oracle) (seeds : list N) (hint : Z) (todo : nat -> list sop_z) (sched0 sched : list nat)
        t k lc tab s2 ls2 : oracle64 o ->
  let s := fst (s_srunM o seeds hint (s_machine_init seeds hint todo) sched0) in
  s_salongM o seeds hint (inlookup (hash_of o) (nslots_of false) nstripes_x t k lc tab) s sched ->
  (exists k' lc' tab' h, h_pc s t = QL_Top k' lc' tab' h 0) ->
  s_machine_step o seeds hint (fst (s_srunM o seeds hint s sched)) t = Some (s2, ls2) ->
  endchain t (fst (s_srunM o seeds hint s sched)) ls2 ->
  s_severM o seeds hint (fun s' => forall v, ~ svis (hash_of o) idx_map tag_map (nslots_of false) (stab_at (nslots_of false) nstripes_x s' tab) k v) s sched.
Proof.
  intros Ho. unfold s_machine_init, s_machine_step.
  apply (s_load_miss_proof zeqd (hash_of o) idx_map tag_map (nslots_of false) (seeds_of seeds) grow_needed_s shrink_policy_s nstripes_x
           (minlen_of_hint false hint) false (s_instance_lhhyps o hint Ho)).
  apply minlen_of_hint_pos.
Qed.

(* the same for what the caller sees: the lookup returns "absent" *)
Theorem s_machine_load_absent (o : oracle) (seeds : list N) (hint : Z) (todo : nat -> list sop_z) (sched0 sched : list nat)
        t k lc tab s2 ls2 : oracle64 o ->
  let s := fst (s_srunM o seeds hint (s_machine_init seeds hint todo) sched0) in
  s_salongM o seeds hint (inlookup (hash_of o) (nslots_of false) nstripes_x t k lc tab) s sched ->
  (exists k' lc' tab' h, h_pc s t = QL_Top k' lc' tab' h 0) ->
  s_machine_step o seeds hint (fst (s_srunM o seeds hint s sched)) t = Some (s2, ls2) ->
  In (SRes t (SRVal None false)) ls2 \/ In (SSubRes t (SRVal None false)) ls2 ->
  s_severM o seeds hint (fun s' => forall v, ~ svis (hash_of o) idx_map tag_map (nslots_of false) (stab_at (nslots_of false) nstripes_x s' tab) k v) s sched.
Proof.
  intros Ho. unfold s_machine_init, s_machine_step.
  apply (s_load_absent_proof zeqd (hash_of o) idx_map tag_map (nslots_of false) (seeds_of seeds) grow_needed_s shrink_policy_s nstripes_x
           (minlen_of_hint false hint) false (s_instance_lhhyps o hint Ho)).
  apply minlen_of_hint_pos.
Qed.

(* ---------------- non-vacuity ---------------- *)
(* Three slots per bucket, one bucket.  Thread 0 has stored (7, 1) and returned.  Threads 1 and 3 (Load 7) have loaded m.table and
   stand before the load of the first bucket word (QL_Top .. 0): the start state.  Thread 2 will update 7 to 2, thread 4 will delete 7. *)
Local Open Scope nat_scope.
Definition lm_hash := (fun (k : nat) (_ : N) => N.of_nat k).
Definition lm_idx := (fun (h : N) len => Nat.modulo (N.to_nat h) len).
Definition lm_srun := @srun nat nat Nat.eq_dec lm_hash lm_idx (fun h => h) 3 (fun _ => 0%N) (fun _ _ => false) (fun _ _ => false) (fun _ => 1) 1 false.
Definition lm_sstep := @sstep nat nat Nat.eq_dec lm_hash lm_idx (fun h => h) 3 (fun _ => 0%N) (fun _ _ => false) (fun _ _ => false) (fun _ => 1) 1 false.
Definition lm_salong := @salong nat nat Nat.eq_dec lm_hash lm_idx (fun h => h) 3 (fun _ => 0%N) (fun _ _ => false) (fun _ _ => false) (fun _ => 1) 1 false.
Definition lm_salongb := @salongb nat nat Nat.eq_dec lm_hash lm_idx (fun h => h) 3 (fun _ => 0%N) (fun _ _ => false) (fun _ _ => false) (fun _ => 1) 1 false.
Definition lm_visb := @visb nat nat Nat.eq_dec lm_hash lm_idx (fun h => h) 3 (fun _ => 1) 7 0.
Definition lm_init : @mstate nat nat :=
  sinit 3 (fun _ => 0%N) (fun _ => 1) 1
        (fun t => match t with
                  | 0 => [SCompute 7 (fun _ => Some 1) false false false]
                  | 1 => [SLoad 7]
                  | 2 => [SCompute 7 (fun _ => Some 2) false false false]
                  | 3 => [SLoad 7]
                  | 4 => [SCompute 7 (fun _ => None) false false false]
                  | _ => []
                  end).
Definition lm_start : @mstate nat nat := fst (lm_srun lm_init (repeat 0 20 ++ [1; 1; 3; 3])).

(* (a) thread 1 loads the word and the value pointer (1, id 0); thread 2 runs its update up to and including the store of the new
   value pointer (2, id 1); thread 1 loads the key, loads the value pointer again -- another identity: it goes back to the SAME slot --,
   loads value, key, value: the key is visible in every state, thread 1 stays in its lookup, and its next step returns (2, true). *)
Definition lm_sched_a : list nat := [1; 1] ++ repeat 2 8 ++ [1; 1; 1; 1].

Example nomiss_nonvacuous :
  h_pc lm_start 1 = QL_Top 7 SLPlain 0 7%N 0
  /\ lm_salong (stays lm_hash lm_idx (fun h => h) 3 (fun _ => 1) 1 7 SLPlain 0) lm_start lm_sched_a
  (* the retry: after the second value load the reader is back at the first load of slot 0 *)
  /\ h_pc (fst (lm_srun lm_start ([1; 1] ++ repeat 2 8 ++ [1]))) 1 = QL_Val2 7 SLPlain 0 7%N 0 [0] 1 0
  /\ h_pc (fst (lm_srun lm_start ([1; 1] ++ repeat 2 8 ++ [1; 1]))) 1 = QL_Val 7 SLPlain 0 7%N 0 [0]
  /\ option_map snd (lm_sstep (fst (lm_srun lm_start lm_sched_a)) 1) = Some [SStep 1 (SKLoadPtr false); SRes 1 (SRVal (Some 2) true)].
Proof.
  split; [vm_compute; reflexivity|]. split.
  { apply (along_and Nat.eq_dec lm_hash lm_idx (fun h => h) 3 (fun _ => 0%N) (fun _ _ => false) (fun _ _ => false) (fun _ => 1) 1 false
             (inlookup lm_hash 3 (fun _ => 1) 1 7 SLPlain 0)
             (fun s => exists v, svis lm_hash lm_idx (fun h => h) 3 (stab_at 3 (fun _ => 1) s 0) 7 v)).
    - vm_compute. repeat split; reflexivity.
    - apply (salongb_ok Nat.eq_dec lm_hash lm_idx (fun h => h) 3 (fun _ => 0%N) (fun _ _ => false) (fun _ _ => false) (fun _ => 1) 1 false lm_visb).
      + intros s E. apply (visb_ok Nat.eq_dec lm_hash lm_idx (fun h => h) 3 (fun _ => 1) 7 0 s E).
      + vm_compute. reflexivity. }
  repeat split; vm_compute; reflexivity.
Qed.

(* (b) thread 3 loads the word (slot 0 passes the filter); thread 4 deletes 7 (all three stores) ; thread 3 loads a nil value pointer,
   a nil key pointer, and then the nil next pointer: the end of the chain, it returns "absent"; 7 is not visible in that last state. *)
Definition lm_sched_b : list nat := [3] ++ repeat 4 10 ++ [3; 3].

Example miss_nonvacuous :
  h_pc lm_start 3 = QL_Top 7 SLPlain 0 7%N 0
  /\ lm_salong (inlookup lm_hash 3 (fun _ => 1) 3 7 SLPlain 0) lm_start lm_sched_b
  /\ lm_visb lm_start = true /\ lm_visb (fst (lm_srun lm_start lm_sched_b)) = false
  /\ option_map snd (lm_sstep (fst (lm_srun lm_start lm_sched_b)) 3) = Some [SStep 3 (SKLoadPtr true); SRes 3 (SRVal None false)]
  /\ endchain 3 (fst (lm_srun lm_start lm_sched_b)) [SStep 3 (SKLoadPtr true); SRes 3 (SRVal None false)].
Proof.
  split; [vm_compute; reflexivity|]. split; [vm_compute; repeat split; reflexivity|].
  split; [vm_compute; reflexivity|]. split; [vm_compute; reflexivity|]. split; [vm_compute; reflexivity|].
  split; [vm_compute; exact I | left; reflexivity].
Qed.
