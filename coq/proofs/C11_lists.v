(* C11_lists.v -- list facts used by the table refinement: maps written as
   A ++ X ++ B with X empty or a single binding; equivalence of two
   association lists as finite maps. *)
From CacheV Require Import Base.

Section L.
  Context {K V : Type}.
  Variable eqd : forall a b : K, {a = b} + {a <> b}.
  Notation amap := (amap K V).

  Lemma keys_app (a b : amap) : keys (a ++ b) = keys a ++ keys b.
  Proof. unfold keys. apply map_app. Qed.

  Lemma lookup_app k (a b : amap) :
    lookup eqd k (a ++ b) = match lookup eqd k a with Some v => Some v | None => lookup eqd k b end.
  Proof.
    induction a as [|[k' v] t IH]; cbn; auto. destruct (eqd k k'); auto.
  Qed.

  Lemma lookup_notin k (a : amap) : ~ In k (keys a) -> lookup eqd k a = None.
  Proof. apply notin_lookup_None. Qed.

  (* a binding in the middle *)
  Lemma lookup_mid k k0 v (A B : amap) : NoDup (keys (A ++ (k0, v) :: B)) ->
    lookup eqd k (A ++ (k0, v) :: B) = if eqd k k0 then Some v else lookup eqd k (A ++ B).
  Proof.
    intros Hnd. rewrite !lookup_app. cbn [lookup].
    destruct (eqd k k0) as [->|Hne].
    - rewrite keys_app in Hnd. cbn in Hnd. apply NoDup_remove_2 in Hnd.
      rewrite lookup_notin; auto. intros Hin. apply Hnd. apply in_or_app. auto.
    - reflexivity.
  Qed.

  Lemma nodup_mid_swap k v v' (A B : amap) :
    NoDup (keys (A ++ (k, v) :: B)) -> NoDup (keys (A ++ (k, v') :: B)).
  Proof. rewrite !keys_app. cbn. auto. Qed.

  Lemma nodup_mid_drop k v (A B : amap) :
    NoDup (keys (A ++ (k, v) :: B)) -> NoDup (keys (A ++ B)) /\ ~ In k (keys (A ++ B)).
  Proof.
    rewrite !keys_app. cbn. intros H. split; [eapply NoDup_remove_1; eauto | eapply NoDup_remove_2; eauto].
  Qed.

  Lemma nodup_mid_add k v (A B : amap) :
    NoDup (keys (A ++ B)) -> ~ In k (keys (A ++ B)) -> NoDup (keys (A ++ (k, v) :: B)).
  Proof.
    rewrite !keys_app. cbn. intros H1 H2.
    apply NoDup_Add with (a := k) (l := keys A ++ keys B); auto. apply Add_app.
  Qed.

  (* ---------- two association lists denoting the same finite map ---------- *)

  Definition meq (a b : amap) : Prop :=
    NoDup (keys a) /\ NoDup (keys b) /\ forall k, lookup eqd k a = lookup eqd k b.

  Lemma nodup_pairs (a : amap) : NoDup (keys a) -> NoDup a.
  Proof. intros H. eapply NoDup_map_inv; eauto. Qed.

  Lemma meq_perm a b : meq a b -> Permutation a b.
  Proof.
    intros [Ha [Hb Hl]]. apply NoDup_Permutation; try (apply nodup_pairs; assumption).
    intros [k v]. split; intros Hin.
    - apply (In_lookup eqd) in Hin; auto. rewrite Hl in Hin. apply lookup_In in Hin. exact Hin.
    - apply (In_lookup eqd) in Hin; auto. rewrite <- Hl in Hin. apply lookup_In in Hin. exact Hin.
  Qed.

  Lemma meq_length a b : meq a b -> length a = length b.
  Proof. intros H. apply Permutation_length, meq_perm; auto. Qed.

  Lemma meq_refl a : NoDup (keys a) -> meq a a.
  Proof. intros H. repeat split; auto. Qed.

  (* the three elementary changes, on the left in A ++ X ++ B form, on the right
     as Base's insert / remove *)
  Lemma meq_update k v v' A B b :
    meq (A ++ (k, v) :: B) b -> meq (A ++ (k, v') :: B) (insert eqd k v' b).
  Proof.
    intros [Ha [Hb Hl]]. split; [eapply nodup_mid_swap; eauto|]. split; [apply NoDup_insert; auto|].
    intros k0. rewrite lookup_mid by (eapply nodup_mid_swap; eauto). rewrite lookup_insert.
    destruct (eqd k0 k); auto. rewrite <- Hl, lookup_mid by auto. destruct (eqd k0 k); [contradiction|auto].
  Qed.

  Lemma meq_delete k v A B b :
    meq (A ++ (k, v) :: B) b -> meq (A ++ B) (remove eqd k b).
  Proof.
    intros [Ha [Hb Hl]]. destruct (nodup_mid_drop _ _ _ _ Ha) as [H1 H2].
    split; auto. split; [apply NoDup_remove; auto|].
    intros k0. rewrite lookup_remove. destruct (eqd k0 k) as [->|Hne].
    - apply lookup_notin; auto.
    - rewrite <- Hl, lookup_mid by auto. destruct (eqd k0 k); [contradiction|auto].
  Qed.

  Lemma meq_add k v A B b :
    meq (A ++ B) b -> lookup eqd k b = None -> meq (A ++ (k, v) :: B) (insert eqd k v b).
  Proof.
    intros [Ha [Hb Hl]] Hn.
    assert (Hnotin : ~ In k (keys (A ++ B))).
    { apply lookup_None_notin with (eqd := eqd). rewrite Hl. exact Hn. }
    assert (Hnd : NoDup (keys (A ++ (k, v) :: B))) by (apply nodup_mid_add; auto).
    split; auto. split; [apply NoDup_insert; auto|].
    intros k0. rewrite lookup_mid by auto. rewrite lookup_insert. destruct (eqd k0 k); auto.
  Qed.

  Lemma meq_trans a b c : meq a b -> meq b c -> meq a c.
  Proof. intros [H1 [H2 H3]] [H4 [H5 H6]]. repeat split; auto. intros k. rewrite H3. apply H6. Qed.

  Lemma meq_sym a b : meq a b -> meq b a.
  Proof. intros [H1 [H2 H3]]. repeat split; auto. Qed.

  Lemma meq_insert_right k v a b : meq a b -> meq (insert eqd k v a) (insert eqd k v b).
  Proof.
    intros [H1 [H2 H3]]. repeat split; try apply NoDup_insert; auto.
    intros k0. rewrite !lookup_insert. destruct (eqd k0 k); auto.
  Qed.

  Lemma meq_lookup a b k : meq a b -> lookup eqd k a = lookup eqd k b.
  Proof. intros [_ [_ H]]. apply H. Qed.

End L.
