(* CXT_ex.v -- runs of the cache methods over the executable instances of XMachine (XExec.v)
   and XMachineS (XExecS.v) with the clock TICKING INSIDE MAP CALLS, computed by vm_compute;
   the theorems of CXT_mapof.v / CXT_map.v apply to them.  And the run that shows why ticks
   are excluded while a Compute call is in flight.

   Both machines, the same cache-level history.  Clock 100, empty cache, no callback.
     t0: Set(7,1,10)      reads the clock (100), hands the Store to the map; 3 pass INSIDE the
                          Store call; the entry 7 -> (1, expires 110) is in the map at 103
     t1: GetWithTTL(7)    2 pass INSIDE its Load call; finds the entry live at 105; 4 pass; lifetime
                          computed at 109: (1, 1, true)
     t0: GetAndDelete(7)  5 pass INSIDE its LoadAndDelete call; judges the removed entry at 114: (0, false)
     t1: Get(7)           misses;   t1: GetOrSet(7,2,10): a Compute call, no tick inside: (2, false). *)
From CacheV Require Import Base SpecMap Client CacheModel Ops SpecTTL Lin LinT Conc ConcT.
From CacheV.gen Require Import Params.
From CacheV Require Import TabExec Exec XExec XExecS.
From CacheV.proofs Require Import C02_good X_swar XS_cinst XS_rinst CX_mapof CX_map LinT_facts LinT_tests
  CXT_compose CXT_product CXT_mapof CXT_map.
From Coq Require Import NArith.
Local Open Scope Z_scope.

Definition todoM (t : nat) : list (cop Z Z) :=
  match t with
  | O => [OSet 7 1 10; OGetAndDelete 7]
  | S O => [OGetWithTTL 7; OGet 7; OGetOrSet 7 2 10]
  | _ => []
  end.

Definition histM : list (hevT (cop Z Z) (cres Z Z)) :=
  [HTInv 0 (OSet 7 1 10); HTTick 3; HTRes 0 CUnit; HTInv 1 (OGetWithTTL 7); HTTick 2; HTTick 4;
   HTRes 1 (CValTTL 1 1 true); HTInv 0 (OGetAndDelete 7); HTTick 5; HTRes 0 (CVal 0 false);
   HTInv 1 (OGet 7); HTRes 1 (CVal 0 false); HTInv 1 (OGetOrSet 7 2 10); HTRes 1 (CVal 2 false)].

Lemma todoM_ok : forall t, Forall conc_ok (todoM t).
Proof. intros [|[|t]]; cbn; repeat constructor. Qed.

Lemma todoM_dormant : forall t, (2 <= t)%nat -> todoM t = [].
Proof. intros [|[|t]] H; [lia | lia | reflexivity]. Qed.

(* ---------------- XMachine (MapOf) ---------------- *)

Definition cxT_ex_hist (progs : cop Z Z -> prog Z Z (cres Z Z)) now0 (todo : nat -> list (cop Z Z)) sched :=
  cxhistT zeqd (hash_of []) idx_mapof tag_mapof (Z.to_nat entriesPerMapOfBucket) (seeds_of [])
          grow_needed_m shrink_policy_m probe_x nstripes_x (minlen_of_hint true 0) false (minlen_of_hint true 0)
          progs 0 None now0 todo sched.
Definition cxT_ex_safeb (progs : cop Z Z -> prog Z Z (cres Z Z)) n now0 (todo : nat -> list (cop Z Z)) sched :=
  cxsafebT zeqd (hash_of []) idx_mapof tag_mapof (Z.to_nat entriesPerMapOfBucket) (seeds_of [])
           grow_needed_m shrink_policy_m probe_x nstripes_x (minlen_of_hint true 0) false (minlen_of_hint true 0)
           progs 0 None n now0 todo sched.

(* Set on XMachine: invocation, clock read, push, 9 primitive steps, return *)
Definition schedX : list (@move Z Z) :=
  repeat (th 0) 6 ++ [tk 3] ++ repeat (th 0) 7
  ++ repeat (th 1) 4 ++ [tk 2] ++ repeat (th 1) 3 ++ [tk 4] ++ repeat (th 1) 2
  ++ repeat (th 0) 5 ++ [tk 5] ++ repeat (th 0) 8 ++ repeat (th 1) 27.

Example cache_over_xmachine_ticking_run :
  cxT_ex_hist (prog_cache zeqd 0) 100 todoM schedX = histM
  /\ cxT_ex_safeb (prog_cache zeqd 0) 2 100 todoM schedX = true.
Proof. split; vm_compute; reflexivity. Qed.

Example cache_over_xmachine_ticking_run_linearizable : cache_linearizableT zeqd 0 (st0 100) histM.
Proof.
  destruct cache_over_xmachine_ticking_run as [<- Hs]. unfold cxT_ex_hist.
  apply (cache_over_xmachine_linearizable_ticking zeqd (hash_of []) idx_mapof tag_mapof (Z.to_nat entriesPerMapOfBucket) (seeds_of [])
           grow_needed_m shrink_policy_m probe_x nstripes_x (minlen_of_hint true 0) false 0 0 None
           (x_instance_hyps4 0) (minlen_of_hint true 0) 100 todoM schedX).
  - destruct (x_instance_hyps4 0) as [[_ [_ H]] _]. exact H.
  - exact todoM_ok.
  - eapply cxsafebT_sound; [exact todoM_dormant | exact Hs].
Qed.

(* ---------------- XMachineS (Map) ---------------- *)

Definition csT_ex_hist (progs : cop Z Z -> prog Z Z (cres Z Z)) now0 (todo : nat -> list (cop Z Z)) sched :=
  cshistT zeqd (hash_of []) idx_map tag_map (nslots_of false) (seeds_of [])
          grow_needed_s shrink_policy_s nstripes_x (minlen_of_hint false 0) false (minlen_of_hint false 0)
          progs 0 None now0 todo sched.
Definition csT_ex_safeb (progs : cop Z Z -> prog Z Z (cres Z Z)) n now0 (todo : nat -> list (cop Z Z)) sched :=
  cssafebT zeqd (hash_of []) idx_map tag_map (nslots_of false) (seeds_of [])
           grow_needed_s shrink_policy_s nstripes_x (minlen_of_hint false 0) false (minlen_of_hint false 0)
           progs 0 None n now0 todo sched.

(* Set on XMachineS: invocation, clock read, push, 14 primitive steps, return *)
Definition schedS : list (@move Z Z) :=
  repeat (th 0) 8 ++ [tk 3] ++ repeat (th 0) 10
  ++ repeat (th 1) 5 ++ [tk 2] ++ repeat (th 1) 4 ++ [tk 4] ++ repeat (th 1) 2
  ++ repeat (th 0) 6 ++ [tk 5] ++ repeat (th 0) 11 ++ repeat (th 1) 39.

Example cache_over_smachine_ticking_run :
  csT_ex_hist (prog_cache zeqd 0) 100 todoM schedS = histM
  /\ csT_ex_safeb (prog_cache zeqd 0) 2 100 todoM schedS = true.
Proof. split; vm_compute; reflexivity. Qed.

Lemma oracle64_nil : oracle64 [].
Proof. constructor. Qed.

Example cache_over_smachine_ticking_run_linearizable : cache_linearizableT zeqd 0 (st0 100) histM.
Proof.
  destruct cache_over_smachine_ticking_run as [<- Hs]. unfold csT_ex_hist.
  apply (cache_over_smachine_linearizable_ticking zeqd (hash_of []) idx_map tag_map (nslots_of false) (seeds_of [])
           grow_needed_s shrink_policy_s nstripes_x (minlen_of_hint false 0) false 0 0 None
           (s_instance_rhyps [] 0 oracle64_nil) (minlen_of_hint false 0) 100 todoM schedS).
  - destruct (s_instance_rhyps [] 0 oracle64_nil) as [_ [_ [_ H]]]. exact H.
  - exact todoM_ok.
  - eapply cssafebT_sound; [exact todoM_dormant | exact Hs].
Qed.

(* the twin text over both machines: the same history *)
Example cacheof_over_machines_ticking_run :
  cxT_ex_hist (prog_cacheof zeqd 0) 100 todoM schedX = histM
  /\ csT_ex_hist (prog_cacheof zeqd 0) 100 todoM schedS = histM.
Proof. split; vm_compute; reflexivity. Qed.

(* ---------------- why no tick while a Compute call is in flight ----------------
   The product machine hands the closure of a Compute to the map machine with the clock of THAT instant
   (XMachine's functions are pure), and the map machine runs it later.  Clock 100, empty cache.
     t1: GetAndSet(7,1,5)   invoked, the Compute handed to the map with the clock 100;
     20 pass (an UNSAFE tick: the Compute is in flight);
     t2: SetForever(7,9)    complete, at 120;
     t1: the Compute runs:  old value 9, stores 7 -> (1, expires 100+5 = 105), answers (9, true);
     t2: Get(7)             at 120 the entry (1, 105) has expired: (0, false).
   Not linearizable: the GetAndSet answered 9, so it took effect after the SetForever, at clock 120, where it
   arms 7 -> (1, 125); the Get, later, at 120, must see 1.  (In the Go code the closure calls time.Now()
   when it runs, under the bucket lock; a product machine that does the same needs the map machine to tell
   it when the function is applied -- outside the interface of CX_product.v.) *)
Definition todoR (t : nat) : list (cop Z Z) :=
  match t with S O => [OGetAndSet 7 1 5] | S (S O) => [OSetForever 7 9; OGet 7] | _ => [] end.
Definition schedR : list (@move Z Z) := repeat (th 1) 2 ++ [tk 20] ++ repeat (th 2) 12 ++ repeat (th 1) 14 ++ repeat (th 2) 30.
Definition histR : list (hevT (cop Z Z) (cres Z Z)) :=
  [HTInv 1 (OGetAndSet 7 1 5); HTTick 20; HTInv 2 (OSetForever 7 9); HTRes 2 CUnit; HTRes 1 (CVal 9 true);
   HTInv 2 (OGet 7); HTRes 2 (CVal 0 false)].

Example closure_clock_run :
  cxT_ex_hist (prog_cache zeqd 0) 100 todoR schedR = histR
  /\ cxT_ex_safeb (prog_cache zeqd 0) 3 100 todoR schedR = false.
Proof. split; vm_compute; reflexivity. Qed.

Ltac refuteW H He :=
  let t := fresh "t" in let o := fresh "o" in let ci := fresh "ci" in let tau := fresh "tau" in
  let r := fresh "r" in let s' := fresh "s'" in let i' := fresh "i'" in
  let Hst := fresh "Hst" in let Hsk := fresh "Hsk" in let Hsp := fresh "Hsp" in
  let H' := fresh "H'" in let He' := fresh "He'" in let Hx := fresh "Hx" in
  let Hi := fresh "Hi" in let Hle := fresh "Hle" in
  lazymatch type of He with
  | _ = ?e :: _ =>
    destruct (legalT_head _ _ _ _ _ _ _ _ _ _ _ _ H He)
      as [(t & o & ci & tau & r & s' & i' & -> & Hst & Hsk & Hsp & H' & He') | (i' & He' & Hx)]; clear H He;
    [ who Hst; injection Hst as <- <-;
      unfold stampT, stamp_in, kindT in Hsk; cbn in Hsk;
      try (assert (tau = 100) by lia; subst tau); try (assert (tau = 120) by lia; subst tau); try subst tau;
      vm_compute in Hsp; destruct Hsp as [? ?]; subst;
      refuteW H' He'
    | cbn beta iota in Hx;
      lazymatch e with
      | HTInv _ _ => destruct Hx as (-> & Hi & H'); who Hi; refuteW H' He'
      | HTRes _ _ => destruct Hx as (-> & o & tau & Hi & Hle & H'); who Hi; try discriminate Hi; injection Hi; intros; subst;
                     try congruence; refuteW H' He'
      | HTTick _ => destruct Hx as (-> & Hi & H'); refuteW H' He'
      end ]
  end.

Example closure_clock_refuted : ~ cache_linearizableT zeqd 0 (st0 100) histR.
Proof.
  intros [i [He H]]. unfold histR in He.
  refuteW H He.
Qed.
