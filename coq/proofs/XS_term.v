(* XS_term.v -- calls of XMachineS (Map, map.go) terminate (C13), without any fairness assumption.
   The bucket lock of Map is a CAS spin lock: a thread in front of a held lock is ENABLED and spins
   (QK_Load / QK_Spin / QK_CAS / QK_Yield), so deadlock freedom says nothing; what matters is who holds what.
   (T1) SOLO COMPLETION.  [s_solo_call] / [s_solo_finish]: with the explicit step bound [tbound] (the measure [mu]), for calls
        whose Range visitors do not call the map.  [s_solo_call_g] / [s_solo_finish_g]: every call, Range visitors that call
        the map (nested doCompute, frames) included; the measure is the lexicographic pair ([PP], [mu]) -- [lex_step] --,
        where PP weighs the visits the Range still owes; no closed numeric bound is given for that case.
   (T2) CAN ALWAYS FINISH: [s_can_finish], [s_can_always_finish] (all systems, nested calls included), at the end of the file.
   Both need [ghyp] on grow_needed: see [s_solo_writer_grows_forever]. *)
From CacheV Require Import Base SpecMap XMachineS.
From CacheV.proofs Require Import X_maps XS_inv XS_lock XS_own XS_count XS_cells XS_read XS_fn XS_range.
From Coq Require Import NArith Lia.
Local Open Scope nat_scope.

Section STerm.
  Context {K V : Type}.
  Variable eqd : forall a b : K, {a = b} + {a <> b}.
  Variable hash : K -> N -> N.
  Variable idx : N -> nat -> nat.
  Variable tophash : N -> N.
  Variable nslots : nat.
  Variable seeds : nat -> N.
  Variable grow_needed : nat -> Z -> bool.
  Variable shrink_policy : nat -> Z -> bool.
  Variable nstripes : nat -> nat.
  Variable minlen : nat.
  Variable grow_only : bool.

  Notation mslot := (@mslot K V).
  Notation mtable := (@mtable K V).
  Notation mstate := (@mstate K V).
  Notation spc := (@spc K V).
  Notation slabel := (@slabel K V).
  Notation rframe := (@rframe K V).
  Notation empty_mslot := (@empty_mslot K V).
  Notation sstep_pc := (@sstep_pc K V eqd hash idx tophash nslots seeds grow_needed shrink_policy nstripes minlen grow_only).
  Notation sstep := (@sstep K V eqd hash idx tophash nslots seeds grow_needed shrink_policy nstripes minlen grow_only).
  Notation srun := (@srun K V eqd hash idx tophash nslots seeds grow_needed shrink_policy nstripes minlen grow_only).
  Notation stab_at := (@stab_at K V nslots nstripes).
  Notation shome := (@shome K V hash idx).
  Notation tabT := (@tabT K V nslots nstripes).
  Notation sinvoke := (@sinvoke K V).

  (* ---------------- which resize carries which continuation; what an unlock goes on with ---------------- *)

  Definition kdone (kt : @scont K V) : bool := match kt with SKReturn _ => true | SKRetry _ => false end.
  Definition hgrow (hn : shint) : bool := match hn with SHGrow => true | _ => false end.
  Definition hk2 (hn : shint) (kt : @scont K V) : Prop := hgrow hn = false -> kdone kt = true.
  Definition lk_rk (lk : @lockk K V) : Prop := match lk with LKCopy hn kt _ => hk2 hn kt | _ => True end.

  Definition contok (a : spc) : Prop :=
    match a with
    | QRet _ | QA_Add _ _ _ _ | QT_Lock _ _ | QW_Table _ | QR_CAS _ _ | QK_Load _ _ _ | QR_Publish _ _ => True
    | _ => False
    end.

  Fixpoint rk_ok (p : spc) : Prop :=
    match p with
    | QR_CAS hn kt | QR_Table hn kt | QR_Stat hn kt _ => hk2 hn kt
    | QK_Load _ _ lk | QK_Spin _ _ lk | QK_CAS _ _ _ lk | QK_Yield _ _ lk => lk_rk lk
    | QT_Lock (Some hn) kt | QT_Load (Some hn) kt | QT_Wait (Some hn) kt | QT_Waiting (Some hn) kt
    | QT_Relock (Some hn) kt | QT_Unlock (Some hn) kt => hk2 hn kt
    | QR_FastSum _ kt _ _ | QR_ShSum kt _ _ _ => kdone kt = true
    | QU_Load _ _ _ a | QU_Store _ _ _ _ a => contok a /\ rk_ok a
    | QA_Add _ _ _ a => match a with QRet _ | QR_FastSum _ _ _ _ => True | _ => False end /\ rk_ok a
    | _ => True
    end.

  Record RK (s : mstate) : Prop := {
    rk_pc : forall t, rk_ok (h_pc s t);
    rk_fr : forall t f, h_frame s t = Some f -> rk_ok (rf_after f);
    rk_nr : forall t r, h_pc s t <> QRet r;          (* returning is part of the step that reaches QRet *)
  }.

  Lemma start_cx_rk (cx : @scx K V) : rk_ok (sstart_cx cx).
  Proof. unfold sstart_cx. destruct (sc_lie cx); exact I. Qed.

  Lemma swake_rk (p : spc) : rk_ok p -> rk_ok (swake p).
  Proof. destruct p; cbn; auto. Qed.

  Definition frk (fr : nat -> option rframe) : Prop := forall u f, fr u = Some f -> rk_ok (rf_after f).

  Lemma svisits_rk (S0 : mstate) t rest vf after ls : frk (h_frame S0) -> rk_ok after ->
    rk_ok (h_pc (fst (svisits S0 t rest vf after ls)) t) /\ frk (h_frame (fst (svisits S0 t rest vf after ls))).
  Proof.
    intros HF Ha. revert ls. induction rest as [|[k v] r IH]; intros ls; cbn [svisits].
    - assert (HF' : frk (fun t' => if Nat.eq_dec t' t then None else h_frame S0 t')).
      { intros u f. destruct (Nat.eq_dec u t); [discriminate | apply HF]. }
      destruct after; cbn [fst sset_pc sset_frame h_pc h_frame]; (destruct (Nat.eq_dec t t) as [_|Hc]; [|exfalso; apply Hc; reflexivity]);
        (split; [first [exact Ha | exact I] | exact HF']).
    - destruct (vf k v) as [cx|]; [|apply IH]. cbn [fst sset_pc sset_frame h_pc h_frame].
      destruct (Nat.eq_dec t t) as [_|Hc]; [|exfalso; apply Hc; reflexivity]. split; [apply start_cx_rk|].
      intros u f. destruct (Nat.eq_dec u t); [intros E; inversion E; subst f; exact Ha | apply HF].
  Qed.

  Lemma sgoto_rk (S0 : mstate) t q ls : frk (h_frame S0) -> rk_ok q ->
    rk_ok (h_pc (fst (sgoto S0 t q ls)) t) /\ frk (h_frame (fst (sgoto S0 t q ls))).
  Proof.
    intros HF Hq. destruct q; cbn [sgoto fst sset_pc h_pc h_frame];
      try (destruct (Nat.eq_dec t t) as [_|Hc]; [|exfalso; apply Hc; reflexivity]; split; [exact Hq | exact HF]).
    destruct (h_frame S0 t) as [f|] eqn:E.
    - apply svisits_rk; [exact HF | apply (HF t f E)].
    - cbn [fst sset_pc h_pc h_frame]. destruct (Nat.eq_dec t t) as [_|Hc]; [|exfalso; apply Hc; reflexivity]. split; [exact I | exact HF].
  Qed.

  Lemma svisits_nr (S0 : mstate) t rest vf after ls r : h_pc (fst (svisits S0 t rest vf after ls)) t <> QRet r.
  Proof.
    revert ls. induction rest as [|[k v] rs IH]; intros ls; cbn [svisits].
    - destruct after; cbn [fst sset_pc h_pc]; (destruct (Nat.eq_dec t t) as [_|Hc]; [|exfalso; apply Hc; reflexivity]); discriminate.
    - destruct (vf k v) as [cx|]; [|apply IH]. cbn [fst sset_pc h_pc]. destruct (Nat.eq_dec t t) as [_|Hc]; [|exfalso; apply Hc; reflexivity].
      unfold sstart_cx. destruct (sc_lie cx); discriminate.
  Qed.

  Lemma sgoto_nr (S0 : mstate) t q ls r : h_pc (fst (sgoto S0 t q ls)) t <> QRet r.
  Proof.
    destruct q; cbn [sgoto fst sset_pc h_pc]; try (destruct (Nat.eq_dec t t) as [_|Hc]; [|exfalso; apply Hc; reflexivity]; discriminate).
    destruct (h_frame S0 t); [apply svisits_nr|]. cbn [fst sset_pc h_pc]. destruct (Nat.eq_dec t t) as [_|Hc]; [discriminate | exfalso; apply Hc; reflexivity].
  Qed.

  Lemma some_fst_s {A B} (g : A * B) a b : Some g = Some (a, b) -> a = fst g.
  Proof. intros H. inversion H. reflexivity. Qed.

  Lemma after_lock_rk (S1 : mstate) t tab b lk : lk_rk lk ->
    rk_ok (snd (after_lock hash idx tophash nslots nstripes S1 t tab b lk)).
  Proof.
    intros Hl. unfold after_lock. destruct lk; cbv zeta.
    - exact I.
    - match goal with |- context [scopy_chain ?a ?b ?c ?d ?e ?f] => destruct (scopy_chain a b c d e f) as [nt cp] end.
      cbn [snd rk_ok]. destruct (Nat.ltb _ _); cbn [contok rk_ok lk_rk]; auto.
    - cbn [snd rk_ok]. destruct (Nat.ltb _ _); cbn [contok rk_ok lk_rk]; auto.
  Qed.

  Lemma RK_step_pc s t p s' ls : RK s -> h_pc s t = p -> sstep_pc s t p = Some (s', ls) -> RK s'.
  Proof.
    intros HK Hp Hs. pose proof (rk_pc s HK t) as Ht. rewrite Hp in Ht. pose proof (rk_fr s HK) as HF.
    assert (Hfin : forall (S0 : mstate) q ls0, h_frame S0 = h_frame s ->
               (forall u, h_pc S0 u = h_pc s u \/ h_pc S0 u = swake (h_pc s u)) -> rk_ok q -> RK (fst (sgoto S0 t q ls0))).
    { intros S0 q ls0 Ef Ho Hq. destruct (sgoto_rk S0 t q ls0) as [A B]; [rewrite Ef; exact HF | exact Hq|].
      destruct (sgoto_shared S0 t q ls0) as [_ [G _]]. constructor; [|exact B|].
      - intros u. destruct (Nat.eq_dec u t) as [->|Hne]; [exact A|]. rewrite (G u Hne).
        destruct (Ho u) as [E|E]; rewrite E; [apply (rk_pc s HK) | apply swake_rk; apply (rk_pc s HK)].
      - intros u r. destruct (Nat.eq_dec u t) as [->|Hne]; [apply sgoto_nr|]. rewrite (G u Hne).
        destruct (Ho u) as [E|E]; rewrite E; [apply (rk_nr s HK)|]. pose proof (rk_nr s HK u) as Hn. destruct (h_pc s u); cbn [swake]; try discriminate. apply Hn. }
    destruct p; cbn [XMachineS.sstep_pc] in Hs; cbv zeta in Hs; unfold sfnev in Hs;
      repeat match type of Hs with context [match ?x with _ => _ end] => destruct x eqn:? end;
      try discriminate Hs; apply some_fst_s in Hs; subst s'; cbn [rk_ok] in Ht.
    all: try match goal with
             | Ha : after_lock _ _ _ _ _ ?S1 ?T ?TAB ?B ?LK = (_, _) |- _ =>
                 pose proof (after_lock_rk S1 T TAB B LK Ht) as A0; destruct (after_lock_ok hash idx tophash nslots nstripes S1 T TAB B LK) as [A1 [A2 _]];
                 rewrite Ha in A0, A1, A2; cbn [fst snd] in A0, A1, A2
             end.
    all: try (apply Hfin; [first [reflexivity | exact A2] | intros u; cbn [h_pc sset_tab sset_flags spush_tab sbump]; first [left; reflexivity | right; reflexivity | left; rewrite A1; reflexivity] | ]).
    all: unfold hk2, lk_rk in *; cbn [rk_ok contok hgrow kdone lk_rk hk2] in *; auto.
    all: try match goal with |- context [srun_cont ?kt] => destruct kt; cbn; auto end.
    all: try (destruct hn; cbn [rk_ok hgrow] in *; auto).
    all: try discriminate.
    all: try tauto.
    all: try (unfold hk2; cbn [hgrow kdone]; intros; first [reflexivity | discriminate | assumption]).
    all: try (split; [exact I|]; unfold hk2; cbn [hgrow kdone]; intros; discriminate).
    - (* QStart *) cbn [fst]. constructor; [|exact HF|].
      + intros u. cbn [sset_pc h_pc]. destruct (Nat.eq_dec u t); [exact I | apply (rk_pc s HK)].
      + intros u r. cbn [sset_pc h_pc]. destruct (Nat.eq_dec u t); [discriminate | apply (rk_nr s HK)].
    - (* unlockBucket of a Range: the visits *)
      destruct Ht as [Hc Ha].
      match goal with |- context [svisits ?S0 ?T ?L ?O ?P ?LS] =>
        destruct (svisits_rk S0 T L O P LS) as [A B]; [exact HF | exact Ha|];
        destruct (svisits_shared S0 T L O P LS) as [_ [G _]] end.
      constructor; [|exact B|].
      + intros u. destruct (Nat.eq_dec u t) as [->|Hne]; [exact A|]. rewrite (G u Hne). apply (rk_pc s HK).
      + intros u r. destruct (Nat.eq_dec u t) as [->|Hne]; [apply svisits_nr|]. rewrite (G u Hne). apply (rk_nr s HK).
  Qed.


  (* ---------------- the quantities the bound is made of ---------------- *)

  Fixpoint lsum (l : list nat) : nat := match l with [] => 0 | x :: r => x + lsum r end.
  Fixpoint lmax (l : list nat) : nat := match l with [] => 0 | x :: r => Nat.max x (lmax r) end.
  Definition haskey (sl : mslot) : bool := match ms_key sl with Some _ => true | None => false end.
  Definition nkeys (c : list mslot) : nat := length (filter haskey c).
  (* keys of the chains i, i+1, ... of a table; all keys; the longest chain, in buckets *)
  Definition rest_ent (tb : mtable) (i : nat) : nat := lsum (map nkeys (skipn i (m_chains tb))).
  Definition ecount (tb : mtable) : nat := rest_ent tb 0.
  Definition maxnb (tb : mtable) : nat := lmax (map (fun c => snbuckets nslots c) (m_chains tb)).
  Definition rest_sz (tb : mtable) (i : nat) : Z := ssum_z (skipn i (m_size tb)).
  Definition szsum (tb : mtable) : Z := ssum_z (m_size tb).

  Definition LEN (s : mstate) (j : nat) : nat := m_len (stab_at s j).
  Definition NS (s : mstate) (j : nat) : nat := snstr (stab_at s j).
  Definition EC (s : mstate) (j : nat) : nat := ecount (stab_at s j).
  Definition SZ (s : mstate) (j : nat) : Z := szsum (stab_at s j).
  Definition MB (s : mstate) (j : nat) : nat := maxnb (stab_at s j).

  (* how many grows can still follow: S the counter value the next decision will see, E the keys, L the length *)
  Definition gof (S : Z) (E L : nat) : nat := (if Z.eqb S (Z.of_nat E) then 0 else 1) + (E - L).

  (* one attempt of doCompute on a table of length L with ns stripes and chains of at most mb buckets, a resize included,
     and the attempts after g grows (E keys: a chain of the grown table has at most 1 + E buckets) *)
  Fixpoint Acost (g L ns mb E : nat) : nat :=
    2 * ns + 4 * L + mb + 50 + match g with 0 => 0 | S g' => Acost g' (2 * L) (nstripes (2 * L)) (1 + E) E end.

  Lemma Acost_mono g : forall g' L ns mb mb' E, g' <= g -> mb' <= mb -> Acost g' L ns mb' E <= Acost g L ns mb E.
  Proof.
    induction g as [|g IH]; intros g' L ns mb mb' E H Hm.
    - assert (g' = 0) by lia. subst. cbn [Acost]. lia.
    - destruct g' as [|g']; cbn [Acost]; [lia|]. specialize (IH g' (2 * L) (nstripes (2 * L)) (1 + E) (1 + E) E ltac:(lia) ltac:(lia)). lia.
  Qed.

  Definition Rz (s : mstate) : nat := NS s (h_cur s) + 4 * LEN s (h_cur s) + 16.

  Definition Bs (s : mstate) : nat :=
    Acost (gof (SZ s (h_cur s)) (EC s (h_cur s)) (LEN s (h_cur s))) (LEN s (h_cur s)) (NS s (h_cur s)) (MB s (h_cur s)) (EC s (h_cur s)).

  Definition attk (kt : @scont K V) (n : nat) : nat := if kdone kt then 0 else 6 + n.
  Definition stale (s : mstate) (tab : nat) : nat := if Nat.eqb (h_cur s) tab then 0 else 8.

  (* the attempts after a grow of table tab that starts now *)
  Definition agrow (s : mstate) (tab : nat) : nat :=
    Acost (EC s tab - 2 * LEN s tab) (2 * LEN s tab) (nstripes (2 * LEN s tab)) (1 + EC s tab) (EC s tab).

  (* the grows still possible when sumSize() of table tab stands at stripe i with acc, deciding for the current table *)
  Definition gsum (s : mstate) (tab i : nat) (acc : Z) : nat :=
    (if Nat.eqb (h_cur s) tab && Z.eqb (acc + rest_sz (stab_at s tab) i) (Z.of_nat (EC s (h_cur s))) then 0 else 1)
    + (EC s (h_cur s) - LEN s (h_cur s)).
  Definition gtail (s : mstate) (g : nat) : nat :=
    match g with
    | 0 => 0
    | S g' => 6 + Acost g' (2 * LEN s (h_cur s)) (nstripes (2 * LEN s (h_cur s))) (1 + EC s (h_cur s)) (EC s (h_cur s))
    end.

  (* the attempts after the copy that stands before bucket b of table tab, into table new *)
  Definition acopy (s : mstate) (tab new b : nat) : nat :=
    Acost (gof (SZ s new + Z.of_nat (rest_ent (stab_at s tab) b)) (EC s new + rest_ent (stab_at s tab) b) (LEN s new))
          (LEN s new) (NS s new) (MB s new + rest_ent (stab_at s tab) b) (EC s new + rest_ent (stab_at s tab) b).

  (* what follows lockBucket of bucket b of table tab *)
  Definition body (s : mstate) (tab b : nat) (lk : @lockk K V) : nat :=
    match lk with
    | LKCompute _ => 3 + stale s tab + Bs s
    | LKCopy hn kt new => 4 * (LEN s tab - b) + 6 + attk kt (acopy s tab new b)
    | LKRange _ => 4 * (LEN s tab - b) - 2
    end.

  (* the read path *)
  Definition Wb : nat := 6 * nslots + 2.
  Definition nbc (s : mstate) (tab : nat) (h : N) : nat :=
    snbuckets nslots (schain_of (stab_at s tab) (idx h (m_len (stab_at s tab)))).
  Definition Rr (s : mstate) (tab : nat) (h : N) (bi : nat) : nat := (nbc s tab h - S bi) * Wb.
  Definition cur_val (s : mstate) (tab : nat) (h : N) (bi : nat) (todo : list nat) : option (V * nat) :=
    match todo with
    | i :: _ => ms_val (sslot_at (stab_at s tab) (idx h (m_len (stab_at s tab))) (bi * nslots + i))
    | [] => None
    end.
  Definition idsame (id : nat) (cur : option (V * nat)) : bool := match cur with Some (_, id') => Nat.eqb id id' | None => false end.
  Definition kfresh (vp cur : option (V * nat)) : bool := match vp with Some (_, id) => idsame id cur | None => true end.
  Definition ltail (s : mstate) (lc : @slcont K V) : nat := match lc with SLPlain => 0 | SLFast _ => 7 + Bs s end.

  Fixpoint mu (s : mstate) (p : spc) : nat :=
    match p with
    | QStart => 1
    | QIdle | QRet _ => 0
    | QL_Table k lc => 1 + (Wb + Rr s (h_cur s) (hash k (m_seed (stab_at s (h_cur s)))) 0) + ltail s lc
    | QL_Top _ lc tab h bi => Wb + Rr s tab h bi + ltail s lc
    | QL_Val _ lc tab h bi todo => 3 + 6 * (length todo - 1) + 1 + Rr s tab h bi + ltail s lc
    | QL_Key _ lc tab h bi todo vp =>
        (if kfresh vp (cur_val s tab h bi todo) then 2 else 5) + 6 * (length todo - 1) + 1 + Rr s tab h bi + ltail s lc
    | QL_Val2 _ lc tab h bi todo _ id =>
        (if idsame id (cur_val s tab h bi todo) then 1 else 4) + 6 * (length todo - 1) + 1 + Rr s tab h bi + ltail s lc
    | QL_Next _ lc tab h bi => 1 + Rr s tab h bi + ltail s lc
    | QK_Load tab b lk => 2 + body s tab b lk
    | QK_Spin tab b lk | QK_Yield tab b lk => 3 + body s tab b lk
    | QK_CAS tab b v lk =>
        (if N.eqb (word_val (sword_at nslots (stab_at s tab) b 0)) (word_val v) then 1 else 4) + body s tab b lk
    | QU_Load _ _ _ a => 2 + mu s a
    | QU_Store _ _ _ _ a => 1 + mu s a
    | QA_Add _ _ _ a => 1 + mu s a
    | QW_Table _ => 6 + Bs s
    | QW_ChkRes _ tab => 3 + stale s tab + Bs s
    | QW_ChkTab _ tab => 2 + stale s tab + Bs s
    | QW_Scan cx tab bi _ _ =>
        (snbuckets nslots (schain_of (stab_at s tab) (shome (stab_at s tab) (sc_k cx))) - bi) + 10 + NS s tab + Rz s + gtail s (gsum s tab 0 0)
    | QW_Sum _ tab i acc => (NS s tab - i) + 8 + Rz s + gtail s (gsum s tab i acc)
    | QW_D1 _ tab _ _ _ _ => 7 + NS s tab + Rz s
    | QW_D2 _ tab _ _ _ => 6 + NS s tab + Rz s
    | QW_D3 _ tab _ _ _ => 5 + NS s tab + Rz s
    | QW_U1 _ _ _ _ _ => 3
    | QW_I0 _ _ _ _ => 7
    | QW_I1 _ _ _ _ _ => 6
    | QW_I2 _ _ _ _ => 5
    | QW_I3 _ _ _ _ => 4
    | QW_N1 _ _ _ => 4
    | QR_FastSum known kt i _ => 1 + (NS s known - i) + Rz s + attk kt (Bs s)
    | QR_CAS hn kt => Rz s + (if hgrow hn then attk kt (agrow s (h_cur s)) else attk kt (Bs s))
    | QR_Table hn kt => Rz s - 1 + (if hgrow hn then attk kt (agrow s (h_cur s)) else attk kt (Bs s))
    | QR_ShSum kt tab i _ => 1 + (NS s tab - i) + 4 * LEN s tab + 10 + attk kt (Bs s)
    | QR_Stat hn kt tab => 4 * LEN s tab + 9 + (if hgrow hn then attk kt (agrow s tab) else attk kt (Bs s))
    | QR_Publish kt new =>
        5 + attk kt (Acost (gof (SZ s new) (EC s new) (LEN s new)) (LEN s new) (NS s new) (MB s new) (EC s new))
    | QR_FinLock kt => 4 + attk kt (Bs s)
    | QR_FinStore kt => 3 + attk kt (Bs s)
    | QR_FinBcast kt => 2 + attk kt (Bs s)
    | QR_FinUnlock kt => 1 + attk kt (Bs s)
    | QT_Lock hn kt | QT_Relock hn kt => 3 + match hn with Some SHClear => Rz s + attk kt (Bs s) | _ => attk kt (Bs s) end
    | QT_Load hn kt => 2 + match hn with Some SHClear => Rz s + attk kt (Bs s) | _ => attk kt (Bs s) end
    | QT_Unlock hn kt => 1 + match hn with Some SHClear => Rz s + attk kt (Bs s) | _ => attk kt (Bs s) end
    | QT_Wait _ _ | QT_Waiting _ _ => 0
    | QG_Table _ => 2 + 4 * LEN s (h_cur s)
    | QS_Table => 2 + NS s (h_cur s)
    | QS_Sum tab i _ => 1 + (NS s tab - S i)
    | QC_Table => 1 + Rz s
    end.


  (* ---------------- what the bound looks at: a view of the state ---------------- *)

  Definition vt (tb : mtable) : N * list Z * list (list bool) := (m_seed tb, m_size tb, map (map haskey) (m_chains tb)).
  Definition view (s : mstate) : nat * list (N * list Z * list (list bool)) := (h_cur s, map vt (h_tabs s)).

  Lemma hk_chain (c c' : list mslot) : map haskey c' = map haskey c -> length c' = length c /\ nkeys c' = nkeys c.
  Proof.
    revert c'. induction c as [|sl r IH]; intros [|sl' r'] H; try discriminate H; [split; reflexivity|].
    cbn [map] in H. injection H as H1 H2. destruct (IH r' H2) as [A B]. split; [cbn [length]; rewrite A; reflexivity|].
    unfold nkeys in *. cbn [filter]. rewrite H1. destruct (haskey sl); cbn [length]; rewrite B; reflexivity.
  Qed.

  Lemma vt_facts (tb tb' : mtable) : vt tb' = vt tb ->
    m_seed tb' = m_seed tb /\ m_size tb' = m_size tb /\ m_len tb' = m_len tb
    /\ (forall b, map haskey (schain_of tb' b) = map haskey (schain_of tb b))
    /\ (forall i, rest_ent tb' i = rest_ent tb i) /\ maxnb tb' = maxnb tb.
  Proof.
    unfold vt. intros H. injection H as H1 H2 H3.
    split; [exact H1|]. split; [exact H2|].
    split; [unfold m_len; rewrite <- (map_length (map haskey) (m_chains tb)), <- H3, map_length; reflexivity|].
    split; [|split].
    - intros b. unfold schain_of.
      rewrite <- (map_nth (map haskey) (m_chains tb') [] b), <- (map_nth (map haskey) (m_chains tb) [] b), H3. reflexivity.
    - intros i. unfold rest_ent. revert i H3. generalize (m_chains tb) as l. generalize (m_chains tb') as l'.
      induction l' as [|c' r' IH]; intros [|c r] i H; try discriminate H; [reflexivity|].
      cbn [map] in H. injection H as Hc Hr. destruct i as [|i]; cbn [skipn map lsum].
      + destruct (hk_chain c c' Hc) as [_ E]. rewrite E. specialize (IH r 0 Hr). cbn [skipn] in IH. rewrite IH. reflexivity.
      + apply IH. exact Hr.
    - unfold maxnb. revert H3. generalize (m_chains tb) as l. generalize (m_chains tb') as l'.
      induction l' as [|c' r' IH]; intros [|c r] H; try discriminate H; [reflexivity|].
      cbn [map] in H. injection H as Hc Hr. cbn [map lmax]. rewrite (IH r Hr). destruct (hk_chain c c' Hc) as [E _].
      unfold snbuckets. rewrite E. reflexivity.
  Qed.

  Lemma vt_at s s' j : view s' = view s -> vt (stab_at s' j) = vt (stab_at s j).
  Proof.
    unfold view. intros H. injection H as _ H. unfold XMachineS.stab_at.
    rewrite <- (map_nth vt (h_tabs s') _ j), H, (map_nth vt). reflexivity.
  Qed.

  Lemma view_acc s s' : view s' = view s ->
    h_cur s' = h_cur s
    /\ (forall j, LEN s' j = LEN s j /\ NS s' j = NS s j /\ EC s' j = EC s j /\ SZ s' j = SZ s j /\ MB s' j = MB s j
                  /\ m_seed (stab_at s' j) = m_seed (stab_at s j)
                  /\ (forall i, rest_ent (stab_at s' j) i = rest_ent (stab_at s j) i)
                  /\ (forall i, rest_sz (stab_at s' j) i = rest_sz (stab_at s j) i)
                  /\ (forall b, snbuckets nslots (schain_of (stab_at s' j) b) = snbuckets nslots (schain_of (stab_at s j) b))).
  Proof.
    intros H. split; [unfold view in H; injection H as H _; exact H|].
    intros j. destruct (vt_facts _ _ (vt_at s s' j H)) as [A [B [C [D [E F]]]]].
    unfold LEN, NS, EC, SZ, MB, snstr, szsum, ecount, rest_sz. rewrite B, C, F. repeat split; auto.
    intros b. destruct (hk_chain _ _ (D b)) as [L _]. unfold snbuckets. rewrite L. reflexivity.
  Qed.

  (* program counters whose bound compares a local with memory (the CAS of lockBucket, the snapshot of Load) *)
  Fixpoint uf (p : spc) : Prop :=
    match p with
    | QL_Key _ _ _ _ _ _ _ | QL_Val2 _ _ _ _ _ _ _ _ | QK_CAS _ _ _ _ => False
    | QU_Load _ _ _ a | QU_Store _ _ _ _ a | QA_Add _ _ _ a => uf a
    | _ => True
    end.

  Lemma contok_uf (a : spc) : contok a -> rk_ok a -> uf a.
  Proof.
    destruct a; cbn [contok]; intros H R; try contradiction; try exact I.
    cbn [rk_ok uf] in *. destruct R as [R _]. destruct a; try contradiction; exact I.
  Qed.

  Lemma Bs_view s s' : view s' = view s -> Bs s' = Bs s.
  Proof.
    intros H. destruct (view_acc s s' H) as [Hc Hj]. unfold Bs. rewrite Hc.
    destruct (Hj (h_cur s)) as [A [B [C [D [E _]]]]]. rewrite A, B, C, D, E. reflexivity.
  Qed.

  Lemma Rz_view s s' : view s' = view s -> Rz s' = Rz s.
  Proof.
    intros H. destruct (view_acc s s' H) as [Hc Hj]. unfold Rz. rewrite Hc.
    destruct (Hj (h_cur s)) as [A [B _]]. rewrite A, B. reflexivity.
  Qed.

  Lemma mu_view s s' p : view s' = view s -> uf p -> mu s' p = mu s p.
  Proof.
    intros H. pose proof (view_acc s s' H) as [Hc Hj]. pose proof (Bs_view s s' H) as HB. pose proof (Rz_view s s' H) as HR.
    assert (Hst : forall tab, stale s' tab = stale s tab) by (intros tab; unfold stale; rewrite Hc; reflexivity).
    assert (Hag : forall tab, agrow s' tab = agrow s tab).
    { intros tab. unfold agrow. destruct (Hj tab) as [A [_ [C _]]]. rewrite A, C. reflexivity. }
    assert (Hgs : forall tab i acc, gsum s' tab i acc = gsum s tab i acc).
    { intros tab i acc. unfold gsum. rewrite Hc. destruct (Hj (h_cur s)) as [A [_ [C _]]]. rewrite A, C.
      destruct (Hj tab) as [_ [_ [_ [_ [_ [_ [_ [R _]]]]]]]]. rewrite (R i). reflexivity. }
    assert (Hgt : forall g, gtail s' g = gtail s g).
    { intros g. unfold gtail. rewrite Hc. destruct (Hj (h_cur s)) as [A [_ [C _]]]. rewrite A, C. reflexivity. }
    assert (Hac : forall tab new b, acopy s' tab new b = acopy s tab new b).
    { intros tab new b. unfold acopy. destruct (Hj new) as [A [B [C [D [E _]]]]]. rewrite A, B, C, D, E.
      destruct (Hj tab) as [_ [_ [_ [_ [_ [_ [R _]]]]]]]. rewrite (R b). reflexivity. }
    assert (Hbo : forall tab b lk, body s' tab b lk = body s tab b lk).
    { intros tab b lk. destruct (Hj tab) as [A _]. destruct lk; cbn [body]; rewrite ?Hst, ?HB, ?Hac, ?A; reflexivity. }
    assert (Hnb : forall tab h, nbc s' tab h = nbc s tab h).
    { intros tab h. unfold nbc. destruct (Hj tab) as [A [_ [_ [_ [_ [_ [_ [_ R]]]]]]]]. unfold LEN in A. rewrite A. apply R. }
    assert (Hrr : forall tab h bi, Rr s' tab h bi = Rr s tab h bi) by (intros; unfold Rr; rewrite Hnb; reflexivity).
    assert (Hlt : forall lc, ltail s' lc = ltail s lc) by (intros lc; unfold ltail; rewrite HB; reflexivity).
    induction p; cbn [mu uf]; intros Hu; try contradiction;
      rewrite ?Hrr, ?Hlt, ?Hbo, ?HB, ?HR, ?Hst, ?Hag, ?Hgs, ?Hgt, ?Hc; try reflexivity;
      repeat match goal with
             | |- context [LEN s' ?j] => destruct (Hj j) as [-> _]
             | |- context [NS s' ?j] => destruct (Hj j) as [_ [-> _]]
             | |- context [EC s' ?j] => destruct (Hj j) as [_ [_ [-> _]]]
             | |- context [SZ s' ?j] => destruct (Hj j) as [_ [_ [_ [-> _]]]]
             | |- context [MB s' ?j] => destruct (Hj j) as [_ [_ [_ [_ [-> _]]]]]
             end; try reflexivity.
    all: try (rewrite IHp by exact Hu; reflexivity).
    - (* QL_Table *) destruct (Hj (h_cur s)) as [_ [_ [_ [_ [_ [E _]]]]]]. rewrite E. reflexivity.
    - (* QW_Scan *)
      destruct (Hj tab) as [A [_ [_ [_ [_ [E [_ [_ R]]]]]]]]. unfold XMachineS.shome. unfold LEN in A. rewrite A, E, R. reflexivity.
  Qed.


  (* ---------------- updates ---------------- *)

  Lemma map_supd_same {X Y} (h : X -> Y) (l : list X) i f : (forall x, h (f x) = h x) -> map h (supd_nth l i f) = map h l.
  Proof.
    intros Hf. revert i. induction l as [|x r IH]; intros i; [destruct i; reflexivity|].
    destruct i as [|i]; cbn [supd_nth map]; [rewrite Hf; reflexivity | rewrite IH; reflexivity].
  Qed.

  Lemma view_set_tab s i f : (forall tb, vt (f tb) = vt tb) -> view (sset_tab s i f) = view s.
  Proof. intros Hf. unfold view, sset_tab. cbn [h_cur h_tabs]. rewrite (map_supd_same vt _ i f Hf). reflexivity. Qed.

  (* updates of a slot that keep the key pointer *)
  Lemma vt_set_slot (tb : mtable) b pos g : (forall sl, haskey (g sl) = haskey sl) -> vt (sset_slot tb b pos g) = vt tb.
  Proof.
    intros Hg. unfold vt, sset_slot, sset_chain. cbn [m_seed m_size m_chains]. f_equal.
    apply map_supd_same. intros c. apply map_supd_same. exact Hg.
  Qed.

  Lemma vt_set_word (tb : mtable) b bi g : vt (sset_word tb b bi g) = vt tb.
  Proof. reflexivity. Qed.

  (* the coarser view: lengths only *)
  Definition sview (s : mstate) : nat * list (nat * nat) := (h_cur s, map (fun tb : mtable => (m_len tb, snstr tb)) (h_tabs s)).

  Lemma sview_acc s s' : sview s' = sview s -> h_cur s' = h_cur s /\ (forall j, LEN s' j = LEN s j /\ NS s' j = NS s j) /\ Rz s' = Rz s.
  Proof.
    unfold sview. intros H. injection H as H1 H2.
    assert (Hj : forall j, LEN s' j = LEN s j /\ NS s' j = NS s j).
    { intros j. unfold LEN, NS, XMachineS.stab_at.
      pose proof (map_nth (fun tb : mtable => (m_len tb, snstr tb)) (h_tabs s') (new_mtable nslots nstripes 1 0%N) j) as A.
      pose proof (map_nth (fun tb : mtable => (m_len tb, snstr tb)) (h_tabs s) (new_mtable nslots nstripes 1 0%N) j) as B.
      rewrite H2, B in A. injection A as A1 A2. auto. }
    split; [exact H1|]. split; [exact Hj|]. unfold Rz. rewrite H1. destruct (Hj (h_cur s)) as [-> ->]. reflexivity.
  Qed.

  Lemma sview_set_tab s i f : (forall tb : mtable, m_len (f tb) = m_len tb /\ snstr (f tb) = snstr tb) -> sview (sset_tab s i f) = sview s.
  Proof.
    intros Hf. unfold sview, sset_tab. cbn [h_cur h_tabs]. f_equal. apply map_supd_same. intros tb. destruct (Hf tb) as [-> ->]. reflexivity.
  Qed.

  Lemma supd_len {X} (l : list X) i f : length (supd_nth l i f) = length l.
  Proof. revert i. induction l as [|x r IH]; intros i; [destruct i; reflexivity|]. destruct i; cbn [supd_nth length]; [reflexivity | rewrite IH; reflexivity]. Qed.

  Lemma len_set_chain (tb : mtable) b g : m_len (sset_chain tb b g) = m_len tb /\ snstr (sset_chain tb b g) = snstr tb.
  Proof. split; [unfold m_len, sset_chain; cbn [m_chains]; apply supd_len | reflexivity]. Qed.
  Lemma len_set_words (tb : mtable) b g : m_len (sset_words tb b g) = m_len tb /\ snstr (sset_words tb b g) = snstr tb.
  Proof. split; reflexivity. Qed.
  Lemma len_add_size (tb : mtable) b d : m_len (sadd_size tb b d) = m_len tb /\ snstr (sadd_size tb b d) = snstr tb.
  Proof. split; [reflexivity | unfold snstr, sadd_size; cbn [m_size]; apply supd_len]. Qed.

  Lemma push_acc (s2 s : mstate) (tb : mtable) : h_tabs s2 = h_tabs s ++ [tb] ->
    (forall j, j < length (h_tabs s) -> stab_at s2 j = stab_at s j) /\ stab_at s2 (length (h_tabs s)) = tb.
  Proof.
    intros H. unfold XMachineS.stab_at. rewrite H. split.
    - intros j Hj. apply app_nth1. exact Hj.
    - rewrite app_nth2 by lia. rewrite Nat.sub_diag. reflexivity.
  Qed.

  Hypothesis Hnslots : 0 < nslots.

  Lemma new_table_facts len seed :
    m_len (new_mtable nslots nstripes len seed : mtable) = len /\ snstr (new_mtable nslots nstripes len seed : mtable) = nstripes len
    /\ ecount (new_mtable nslots nstripes len seed : mtable) = 0 /\ szsum (new_mtable nslots nstripes len seed : mtable) = 0%Z
    /\ maxnb (new_mtable nslots nstripes len seed : mtable) <= 1.
  Proof.
    unfold new_mtable, m_len, snstr, ecount, rest_ent, szsum, maxnb. cbn [m_chains m_size skipn]. rewrite !repeat_length.
    split; [reflexivity|]. split; [reflexivity|]. split; [|split].
    - assert (E0 : forall n, nkeys (repeat empty_mslot n) = 0) by (intros n; unfold nkeys; induction n; cbn; auto).
      pose proof (E0 nslots) as E.
      induction len as [|n IH]; [reflexivity|]. cbn [repeat map lsum]. rewrite E, IH. reflexivity.
    - induction (nstripes len) as [|n IH]; [reflexivity|]. cbn [repeat]. unfold ssum_z in *. cbn [fold_right]. rewrite IH. reflexivity.
    - assert (E : snbuckets nslots (repeat empty_mslot nslots) = 1) by (unfold snbuckets; rewrite repeat_length; apply Nat.div_same; lia).
      induction len as [|n IH]; [cbn; lia|]. cbn [repeat map lmax]. rewrite E. lia.
  Qed.

  Lemma rest_ent_step (tb : mtable) i : i < m_len tb -> rest_ent tb i = nkeys (schain_of tb i) + rest_ent tb (S i).
  Proof.
    unfold rest_ent, m_len, schain_of. revert i. induction (m_chains tb) as [|c r IH]; intros i Hi; [cbn in Hi; lia|].
    destruct i as [|i]; [reflexivity|]. cbn [skipn nth]. apply IH. cbn in Hi. lia.
  Qed.

  Lemma rest_ent_end (tb : mtable) i : m_len tb <= i -> rest_ent tb i = 0.
  Proof. intros H. unfold rest_ent. rewrite skipn_all2 by exact H. reflexivity. Qed.

  Lemma rest_sz_step (tb : mtable) i : i < snstr tb -> rest_sz tb i = (sstripe tb i + rest_sz tb (S i))%Z.
  Proof.
    unfold rest_sz, snstr, sstripe. revert i. induction (m_size tb) as [|c r IH]; intros i Hi; [cbn in Hi; lia|].
    destruct i as [|i]; [reflexivity|]. cbn [skipn nth]. apply IH. cbn in Hi. lia.
  Qed.

  Lemma rest_sz_end (tb : mtable) i : snstr tb <= i -> rest_sz tb i = 0%Z /\ sstripe tb i = 0%Z.
  Proof. intros H. unfold rest_sz, sstripe. rewrite skipn_all2 by exact H. rewrite nth_overflow by exact H. auto. Qed.

  Lemma nbk_le_maxnb (tb : mtable) b : snbuckets nslots (schain_of tb b) <= maxnb tb.
  Proof.
    unfold maxnb, schain_of. revert b. induction (m_chains tb) as [|c r IH]; intros b; [destruct b; cbn; unfold snbuckets; cbn; rewrite Nat.div_0_l by lia; lia|].
    destruct b as [|b]; cbn [nth map lmax]; [lia|]. specialize (IH b). lia.
  Qed.

  (* ---------------- the copy of one bucket ---------------- *)

  Lemma lsum_upd (l : list (list mslot)) b g : b < length l ->
    lsum (map nkeys (supd_nth l b g)) + nkeys (nth b l []) = lsum (map nkeys l) + nkeys (g (nth b l [])).
  Proof.
    revert b. induction l as [|c r IH]; intros b Hb; [cbn in Hb; lia|].
    destruct b as [|b]; cbn [supd_nth nth map lsum]; [lia|].
    assert (Hb' : b < length r) by (cbn in Hb; lia). specialize (IH b Hb'). lia.
  Qed.

  Lemma lmax_upd (l : list (list mslot)) b g :
    lmax (map (fun c => snbuckets nslots c) (supd_nth l b g)) <= Nat.max (lmax (map (fun c => snbuckets nslots c) l)) (snbuckets nslots (g (nth b l []))).
  Proof.
    revert b. induction l as [|c r IH]; intros b; [destruct b; cbn; lia|].
    destruct b as [|b]; cbn [supd_nth nth map lmax]; [lia|]. specialize (IH b). lia.
  Qed.

  Lemma nkeys_empty n : nkeys (repeat empty_mslot n) = 0.
  Proof. unfold nkeys. induction n as [|n IH]; [reflexivity|]. cbn [repeat filter haskey ms_key empty_mslot]. exact IH. Qed.

  Lemma nkeys_set (c : list mslot) pos cell : pos < length c -> haskey (nth pos c empty_mslot) = false -> haskey cell = true ->
    nkeys (supd_nth c pos (fun _ => cell)) = S (nkeys c).
  Proof.
    revert pos. induction c as [|sl r IH]; intros pos Hp H0 H1; [cbn in Hp; lia|].
    destruct pos as [|pos]; cbn [supd_nth nth] in *.
    - unfold nkeys. cbn [filter]. rewrite H1, H0. reflexivity.
    - assert (Hp' : pos < length r) by (cbn in Hp; lia). specialize (IH pos Hp' H0 H1).
      unfold nkeys in *. cbn [filter]. destruct (haskey sl); cbn [length]; rewrite IH; reflexivity.
  Qed.

  Lemma first_nil_hk (c : list mslot) pos0 pos : first_nil_key c pos0 = Some pos ->
    pos0 <= pos < pos0 + length c /\ haskey (nth (pos - pos0) c empty_mslot) = false.
  Proof.
    revert pos0. induction c as [|x r IH]; intros pos0; cbn [first_nil_key length]; [discriminate|].
    destruct (ms_key x) eqn:E.
    - intros H. destruct (IH _ H) as [A B]. split; [lia|]. replace (pos - pos0) with (S (pos - S pos0)) by lia. exact B.
    - intros H. inversion H; subst. split; [lia|]. rewrite Nat.sub_diag. unfold haskey. cbn [nth]. rewrite E. reflexivity.
  Qed.

  Lemma sappend_count (tb : mtable) b th k vp : b < m_len tb ->
    ecount (sappend nslots tb b th k vp) = S (ecount tb) /\ maxnb (sappend nslots tb b th k vp) <= S (maxnb tb)
    /\ m_len (sappend nslots tb b th k vp) = m_len tb /\ m_size (sappend nslots tb b th k vp) = m_size tb
    /\ m_seed (sappend nslots tb b th k vp) = m_seed tb.
  Proof.
    intros Hb. unfold sappend. pose proof (nbk_le_maxnb tb b) as Hmb.
    destruct (first_nil_key (schain_of tb b) 0) as [pos|] eqn:E.
    - destruct (first_nil_hk _ _ _ E) as [A B]. rewrite Nat.sub_0_r in B.
      unfold sset_word, sset_words, sset_slot, sset_chain, ecount, rest_ent, maxnb, m_len. cbn [m_chains m_size m_seed skipn].
      split; [|split; [|split; [apply supd_len | split; reflexivity]]].
      + pose proof (lsum_upd (m_chains tb) b (fun c => supd_nth c pos (fun _ => {| ms_key := Some k; ms_val := vp |})) Hb) as Hu. cbv beta in Hu.
        fold (schain_of tb b) in Hu. rewrite (nkeys_set (schain_of tb b) pos) in Hu by (try reflexivity; try exact B; lia). lia.
      + eapply Nat.le_trans; [apply lmax_upd|]. cbv beta. fold (schain_of tb b). unfold snbuckets at 2. rewrite supd_len.
        fold (snbuckets nslots (schain_of tb b)). unfold maxnb in Hmb. lia.
    - unfold sset_words, sset_chain, ecount, rest_ent, maxnb, m_len. cbn [m_chains m_size m_seed skipn].
      split; [|split; [|split; [apply supd_len | split; reflexivity]]].
      + pose proof (lsum_upd (m_chains tb) b (fun c => c ++ {| ms_key := Some k; ms_val := vp |} :: repeat empty_mslot (nslots - 1)) Hb) as Hu.
        cbv beta in Hu. fold (schain_of tb b) in Hu.
        assert (En : nkeys (schain_of tb b ++ {| ms_key := Some k; ms_val := vp |} :: repeat empty_mslot (nslots - 1)) = S (nkeys (schain_of tb b))).
        { pose proof (nkeys_empty (nslots - 1)) as E0. unfold nkeys in *. rewrite filter_app, app_length. cbn [filter haskey ms_key length].
          rewrite E0. lia. }
        rewrite En in Hu. lia.
      + eapply Nat.le_trans; [apply lmax_upd|]. cbv beta. fold (schain_of tb b). unfold maxnb in Hmb.
        assert (El : snbuckets nslots (schain_of tb b ++ {| ms_key := Some k; ms_val := vp |} :: repeat empty_mslot (nslots - 1)) = S (snbuckets nslots (schain_of tb b))).
        { unfold snbuckets. rewrite app_length. cbn [length]. rewrite repeat_length.
          replace (length (schain_of tb b) + S (nslots - 1)) with (length (schain_of tb b) + 1 * nslots) by lia.
          rewrite Nat.div_add by lia. lia. }
        rewrite El. lia.
  Qed.

  Hypothesis Hidx : forall h len, 0 < len -> idx h len < len.

  Lemma scopy_count (src : list mslot) (dst : mtable) : 0 < m_len dst ->
    let r := scopy_chain hash idx tophash nslots src dst in
    ecount (fst r) = ecount dst + nkeys src /\ snd r = Z.of_nat (nkeys src)
    /\ maxnb (fst r) <= maxnb dst + nkeys src /\ m_len (fst r) = m_len dst /\ m_size (fst r) = m_size dst.
  Proof.
    intros Hl. unfold scopy_chain.
    assert (G : forall (acc : mtable * Z), 0 < m_len (fst acc) ->
              let r := fold_left (fun (acc : mtable * Z) s =>
                match ms_key s with
                | Some k => let h := hash k (m_seed (fst acc)) in
                            (sappend nslots (fst acc) (idx h (m_len (fst acc))) (tophash h) k (ms_val s), (snd acc + 1)%Z)
                | None => acc end) src acc in
              ecount (fst r) = ecount (fst acc) + nkeys src /\ snd r = (snd acc + Z.of_nat (nkeys src))%Z
              /\ maxnb (fst r) <= maxnb (fst acc) + nkeys src /\ m_len (fst r) = m_len (fst acc) /\ m_size (fst r) = m_size (fst acc)).
    { induction src as [|sl r IH]; intros acc Ha; cbn [fold_left].
      - unfold nkeys. cbn. repeat split; lia.
      - destruct (ms_key sl) as [k|] eqn:E.
        + assert (En : nkeys (sl :: r) = S (nkeys r)) by (unfold nkeys; cbn [filter]; unfold haskey at 1; rewrite E; reflexivity).
          rewrite En. cbv zeta.
          set (tb' := sappend nslots (fst acc) _ _ _ _).
          destruct (sappend_count (fst acc) (idx (hash k (m_seed (fst acc))) (m_len (fst acc))) (tophash (hash k (m_seed (fst acc)))) k (ms_val sl) (Hidx _ _ Ha))
            as [S1 [S2 [S3 [S4 S5]]]]. fold tb' in S1, S2, S3, S4, S5.
          specialize (IH (tb', (snd acc + 1)%Z)). cbn [fst snd] in IH. rewrite S3 in IH.
          destruct (IH Ha) as [A1 [A2 [A3 [A4 A5]]]].
          split; [rewrite A1, S1; lia|]. split; [rewrite A2; lia|]. split; [lia|]. split; [exact A4 | rewrite A5; exact S4].
        + assert (En : nkeys (sl :: r) = nkeys r) by (unfold nkeys; cbn [filter]; unfold haskey at 1; rewrite E; reflexivity).
          rewrite En. apply (IH acc Ha). }
    specialize (G (dst, 0%Z) Hl). cbv zeta in G. cbn [fst snd] in G. cbv zeta. destruct G as [A [B [C [D E]]]].
    split; [exact A|]. split; [rewrite B; lia|]. auto.
  Qed.

  Lemma szsum_add_size (tb : mtable) b d : 0 < snstr tb -> szsum (sadd_size tb b d) = (szsum tb + d)%Z.
  Proof. intros H. unfold szsum. apply (size_add_size tb b d). exact H. Qed.


  (* ---------------- calm states ---------------- *)

  Hypothesis Hslots : nslots <= 3.
  Hypothesis Htop : forall k sd, (tophash (hash k sd) < 1048576)%N.
  Hypothesis Hminlen : 0 < minlen.
  Hypothesis Hstripes : forall len, 0 < nstripes len.

  Notation XB := (@XB K V hash idx tophash nslots nstripes).
  Notation XL := (@XL K V hash idx nslots nstripes).
  Notation XCS := (@XCS K V hash idx tophash nslots nstripes).
  Notation XC := (@XS_count.XC K V hash idx nslots nstripes).
  Notation XF := (@XF K V).
  Notation SV := (@X_maps.SV K V).
  Notation sholds := (@sholds K V hash idx nslots nstripes).
  Notation lock_of := (@lock_of K V nslots nstripes).

  (* no other thread holds a bucket lock, resizeMu or the resizer role, none is in the wait set *)
  Definition calm (s : mstate) (t : nat) : Prop :=
    forall u, u <> t -> sholds s (h_pc s u) = None /\ smu (h_pc s u) = false /\ srz (h_pc s u) = false /\ swaiting (h_pc s u) = false.
  (* ... other threads may be in the wait set *)
  Definition qcalm (s : mstate) (t : nat) : Prop :=
    forall u, u <> t -> sholds s (h_pc s u) = None /\ smu (h_pc s u) = false /\ srz (h_pc s u) = false.

  Lemma calm_q s t : calm s t -> qcalm s t.
  Proof. intros H u Hne. destruct (H u Hne) as [A [B [C _]]]. auto. Qed.

  Definition TI (s : mstate) : Prop := XB s /\ SV s /\ XF s /\ XC s /\ RK s.

  Lemma calm_flag s t : TI s -> qcalm s t -> srz (h_pc s t) = false -> h_resizing s = false.
  Proof.
    intros [[HI _] _] Hc Hr. destruct (h_resizing s) eqn:E; [|reflexivity].
    destruct (si_rzC s HI E) as [r Hrz]. destruct (Nat.eq_dec r t) as [->|Hne]; [congruence|].
    destruct (Hc r Hne) as [_ [_ C]]. congruence.
  Qed.

  Lemma calm_lock s t tab b u : TI s -> qcalm s t -> lock_of s tab b = Some u -> u = t.
  Proof.
    intros [[_ [HL _]] _] Hc Hl. destruct (Nat.eq_dec u t) as [E|Hne]; [exact E|].
    pose proof (xl_lockB _ _ _ _ s HL u tab b Hl) as Hh. destruct (Hc u Hne) as [A _]. congruence.
  Qed.

  Lemma calm_mu s t u : TI s -> qcalm s t -> h_rmu s = Some u -> u = t.
  Proof.
    intros [[HI _] _] Hc Hm. destruct (Nat.eq_dec u t) as [E|Hne]; [exact E|].
    pose proof (si_muB s HI u Hm) as Hh. destruct (Hc u Hne) as [_ [A _]]. congruence.
  Qed.

  Lemma swaiting_not (p : spc) : swaiting p = true -> srz p = false /\ sbcast p = false.
  Proof. induction p; cbn; intros H; try discriminate H; auto. Qed.

  Lemma calm_not_waiting s t : TI s -> qcalm s t -> swaiting (h_pc s t) = false.
  Proof.
    intros HT Hc. pose proof HT as [[HI _] _]. destruct (swaiting (h_pc s t)) eqn:E; [|reflexivity]. exfalso.
    destruct (swaiting_not _ E) as [E1 E2].
    destruct (si_waiting s HI t E) as [Hr|[u Hu]].
    - rewrite (calm_flag s t HT Hc E1) in Hr. discriminate Hr.
    - destruct (Nat.eq_dec u t) as [->|Hne]; [congruence|]. destruct (Hc u Hne) as [_ [A _]].
      rewrite (sbcast_mu _ Hu) in A. discriminate A.
  Qed.

  (* the locked scan never finds a key without a value *)
  Lemma scan_found_val k th w (sl : list mslot) base i emp ne pos :
    scan_slots eqd k th w sl base i emp ne = ScFound pos None ->
    exists j, j < length sl /\ ms_key (nth j sl empty_mslot) <> None /\ ms_val (nth j sl empty_mslot) = None.
  Proof.
    revert i emp ne. induction sl as [|x r IH]; intros i emp ne; cbn [scan_slots length]; [discriminate|].
    assert (Hrec : forall emp0 ne0, scan_slots eqd k th w r base (S i) emp0 ne0 = ScFound pos None ->
                     exists j, j < S (length r) /\ ms_key (nth j (x :: r) empty_mslot) <> None /\ ms_val (nth j (x :: r) empty_mslot) = None).
    { intros emp0 ne0 E. destruct (IH _ _ _ E) as [j [A [B C]]]. exists (S j). split; [lia|]. split; assumption. }
    destruct (ms_key x) as [k'|] eqn:Ek; [|apply Hrec].
    destruct (top_match th w i); [destruct (eqd k k')|]; try apply Hrec.
    intros E. exists 0. split; [lia|]. cbn [nth]. rewrite Ek. split; [discriminate|]. congruence.
  Qed.

  (* ---------------- threads whose Range visitors never call the map ---------------- *)

  Definition ncb_vf (vf : K -> V -> option (@scx K V)) : Prop := forall k v, vf k v = None.
  Definition ncb_lk (lk : @lockk K V) : Prop := match lk with LKRange vf => ncb_vf vf | _ => True end.
  Fixpoint ncb (p : spc) : Prop :=
    match p with
    | QG_Table vf => ncb_vf vf
    | QK_Load _ _ lk | QK_Spin _ _ lk | QK_CAS _ _ _ lk | QK_Yield _ _ lk => ncb_lk lk
    | QU_Load _ _ rg a | QU_Store _ _ _ rg a => match rg with Some (_, vf) => ncb_vf vf | None => True end /\ ncb a
    | QA_Add _ _ _ a => ncb a
    | _ => True
    end.
  Definition ncb_op (o : @sop K V) : Prop := match o with SRange vf => ncb_vf vf | _ => True end.

  Definition snorm (q : spc) : spc := match q with QRet _ => QIdle | _ => q end.

  Lemma sgoto_nf (S0 : mstate) t q ls : h_frame S0 t = None -> fst (sgoto S0 t q ls) = sset_pc S0 t (snorm q).
  Proof. intros H. rewrite (sgoto_noframe S0 t q ls H). destruct q; reflexivity. Qed.

  Lemma svisits_nf (S0 : mstate) t snap vf after : ncb_vf vf -> forall ls,
    fst (svisits S0 t snap vf after ls) = sset_pc (sset_frame S0 t None) t (snorm after).
  Proof.
    intros Hv. induction snap as [|[k v] r IH]; intros ls; cbn [svisits].
    - destruct after; reflexivity.
    - rewrite (Hv k v). apply IH.
  Qed.

  Lemma ncb_norm (q : spc) : ncb q -> ncb (snorm q).
  Proof. destruct q; cbn; auto. Qed.
  Lemma mu_norm s (q : spc) : mu s (snorm q) <= mu s q.
  Proof. destruct q; cbn [snorm mu]; lia. Qed.

  Lemma start_cx_ncb (cx : @scx K V) : ncb (sstart_cx cx).
  Proof. unfold sstart_cx. destruct (sc_lie cx); exact I. Qed.

  (* ---------------- a calm thread inside a call can always step ---------------- *)

  Lemma calm_enabled s t : TI s -> qcalm s t -> h_pc s t <> QIdle -> sstep_pc s t (h_pc s t) <> None.
  Proof.
    intros HT Hc Hni E. pose proof HT as [[HI [HL [HTt [HP HCS]]]] [[HSV _] [HXF [HXC HK]]]].
    pose proof (HSV t) as Hto. pose proof (calm_not_waiting s t HT Hc) as Hnw.
    assert (Hmu : forall u, h_rmu s = Some u -> smu (h_pc s t) = true).
    { intros u Hu. pose proof (calm_mu s t u HT Hc Hu) as ->. apply (si_muB s HI t Hu). }
    pose proof (xl_pc _ _ _ _ s HL t) as Hpci. pose proof (proj1 (xt_pc s HTt t)) as Hle.
    pose proof (xl_lockA _ _ _ _ s HL t) as HlA.
    destruct (h_pc s t) eqn:Hp; cbn [XMachineS.sstep_pc] in E; cbv zeta in E; cbn [todo_ok swaiting smu] in *;
      repeat match type of E with context [match ?x with _ => _ end] => destruct x eqn:? end; try discriminate E;
      try contradiction; try (exfalso; apply Hto; reflexivity); try discriminate Hnw;
      try (specialize (Hmu _ eq_refl); discriminate Hmu).
    all: try (exfalso; apply (rk_nr s HK t _ Hp)).
    (* QW_Scan: a key without value under the lock *)
    destruct (scan_found_val _ _ _ _ _ _ _ _ _ Heqs0) as [j [Hj [Hk Hv]]].
    destruct (sbucket_nth nslots _ bi j empty_mslot Hj) as [Hlt En]. rewrite En in Hk, Hv.
    cbn [PCI tabs_le] in Hpci, Hle. set (b := shome (stab_at s tab) (sc_k cx)) in *.
    assert (Hb : b < m_len (tabT (h_tabs s) tab)).
    { apply (shome_lt hash idx Hidx). apply (tb_ok_tabT nslots nstripes Hslots). apply (xl_tabs _ _ _ _ s HL). }
    assert (Hlk : lock_of s tab b = Some t) by (apply HlA; reflexivity).
    destruct (xcs_ch _ _ _ _ _ s HCS tab b Hle Hb) as [_ [_ Hsl]].
    destruct (Hsl (bi * nslots + j) Hlt) as [[F _]|[[k' [v' [id [_ [F _]]]]]|[p [F1 F2]]]].
    - apply Hk. exact F.
    - change (schain_of (stab_at s tab) b) with (schain_of (tabT (h_tabs s) tab) b) in Hv. rewrite F in Hv. discriminate Hv.
    - unfold holder_pc in F1. rewrite Hlk in F1. cbn [option_map] in F1. inversion F1; subst p. rewrite Hp in F2. discriminate F2.
  Qed.



  (* ---------------- every solo step brings the end nearer ---------------- *)

  Definition ghyp : Prop := forall len sum, grow_needed len sum = true -> (Z.of_nat len < sum)%Z.
  Hypothesis Hgrow : ghyp.

  Lemma Bs_ge s : 2 * NS s (h_cur s) + 4 * LEN s (h_cur s) + MB s (h_cur s) + 50 <= Bs s.
  Proof. unfold Bs. destruct (gof _ _ _); cbn [Acost]; lia. Qed.

  Ltac kt_cases :=
    unfold hk2, lk_rk in *; cbn [hgrow kdone] in *;
    repeat match goal with
           | H : false = false -> kdone ?kt = true |- _ => specialize (H eq_refl)
           | H : kdone ?kt = true |- _ => is_var kt; destruct kt; [discriminate H|]; clear H
           end;
    repeat match goal with
           | |- context [kdone ?kt] => is_var kt; destruct kt
           | |- context [srun_cont ?kt] => is_var kt; destruct kt
           | |- context [hgrow ?hn] => is_var hn; destruct hn
           | |- context [match ?hn with Some _ => _ | None => _ end] => is_var hn; destruct hn as [[]|]
           end;
    cbn [kdone srun_cont snorm mu hgrow]; unfold attk; cbn [kdone].

  Ltac view_solve :=
    first [ reflexivity
          | apply view_set_tab; intros; first [reflexivity | apply vt_set_slot; intros; reflexivity] ].

  Ltac drop_pc :=
    repeat match goal with
           | |- context [NS (sset_pc ?S0 ?t ?q) ?j] => change (NS (sset_pc S0 t q) j) with (NS S0 j)
           | |- context [LEN (sset_pc ?S0 ?t ?q) ?j] => change (LEN (sset_pc S0 t q) j) with (LEN S0 j)
           | |- context [EC (sset_pc ?S0 ?t ?q) ?j] => change (EC (sset_pc S0 t q) j) with (EC S0 j)
           | |- context [SZ (sset_pc ?S0 ?t ?q) ?j] => change (SZ (sset_pc S0 t q) j) with (SZ S0 j)
           | |- context [MB (sset_pc ?S0 ?t ?q) ?j] => change (MB (sset_pc S0 t q) j) with (MB S0 j)
           | |- context [stab_at (sset_pc ?S0 ?t ?q) ?j] => change (stab_at (sset_pc S0 t q) j) with (stab_at S0 j)
           | |- context [Rz (sset_pc ?S0 ?t ?q)] => change (Rz (sset_pc S0 t q)) with (Rz S0)
           | |- context [Bs (sset_pc ?S0 ?t ?q)] => change (Bs (sset_pc S0 t q)) with (Bs S0)
           | |- context [h_cur (sset_pc ?S0 ?t ?q)] => change (h_cur (sset_pc S0 t q)) with (h_cur S0)
           end.

  Lemma mu_set_pc s t x (q : spc) : mu (sset_pc s t x) q = mu s q.
  Proof. induction q; cbn [mu]; try reflexivity; rewrite IHq; reflexivity. Qed.

  Lemma stab_set_word s tab b bi g j :
    stab_at (sset_tab s tab (fun tb => sset_word tb b bi g)) j
    = if Nat.eq_dec j tab then (if Nat.ltb tab (length (h_tabs s)) then sset_word (stab_at s tab) b bi g else stab_at s j) else stab_at s j.
  Proof.
    unfold XMachineS.stab_at, sset_tab. cbn [h_tabs]. rewrite nth_supd_nth.
    destruct (Nat.eq_dec j tab) as [->|]; [|reflexivity]. destruct (Nat.ltb tab (length (h_tabs s))) eqn:E; [reflexivity|].
    apply Nat.ltb_ge in E. rewrite (nth_overflow _ _ E). reflexivity.
  Qed.

  Lemma len_set_word s tab b bi g j : m_len (stab_at (sset_tab s tab (fun tb => sset_word tb b bi g)) j) = m_len (stab_at s j).
  Proof. rewrite stab_set_word. destruct (Nat.eq_dec j tab) as [->|]; [|reflexivity]. destruct (Nat.ltb _ _); reflexivity. Qed.

  Lemma mu_set_frame s t o (q : spc) : mu (sset_frame s t o) q = mu s q.
  Proof. induction q; cbn [mu]; try reflexivity; rewrite IHq; reflexivity. Qed.

  Lemma uf_norm (q : spc) : uf q -> uf (snorm q).
  Proof. destruct q; cbn; auto. Qed.

  Lemma uf_cont kt : uf (snorm (@srun_cont K V kt)).
  Proof. destruct kt; exact I. Qed.

  Lemma kfresh_refl (x : option (V * nat)) : kfresh x x = true.
  Proof. destruct x as [[v id]|]; cbn; [apply Nat.eqb_refl | reflexivity]. Qed.

  Lemma flen {X} (f : X -> bool) l : length (filter f l) <= length l.
  Proof. induction l as [|x r IH]; cbn; [lia|]. destruct (f x); cbn; lia. Qed.

  Lemma sgoto_fst_q0 (S0 : mstate) t (q : spc) ls : (forall r, q <> QRet r) -> fst (sgoto S0 t q ls) = sset_pc S0 t q.
  Proof. intros Hq. destruct q; try reflexivity. exfalso. eapply Hq. reflexivity. Qed.

  (* only the unlock that precedes the visits of a Range looks at the visitor *)
  Definition ncbS (p : spc) : Prop := match p with QU_Store _ _ _ (Some (_, vf)) _ => ncb_vf vf | _ => True end.
  Lemma ncb_ncbS (p : spc) : ncb p -> ncbS p.
  Proof. destruct p; cbn; auto. destruct rg as [[sn vf]|]; tauto. Qed.

  Lemma sgoto_cases (S0 : mstate) t (q : spc) l0 :
    (exists r f, q = QRet r /\ h_frame S0 t = Some f) \/ fst (sgoto S0 t q l0) = sset_pc S0 t (snorm q).
  Proof.
    destruct q; try (right; reflexivity). destruct (h_frame S0 t) as [f|] eqn:E; [left; eauto|].
    right. cbn [sgoto]. rewrite E. reflexivity.
  Qed.

  Lemma svisits_frame_lt (S0 : mstate) t rest vf a : forall l,
    match h_frame (fst (svisits S0 t rest vf a l)) t with None => True | Some f' => length (rf_rest f') < length rest end.
  Proof.
    induction rest as [|[k v] r IH]; intros l; cbn [svisits].
    - destruct a; cbn [fst sset_pc sset_frame h_frame]; (destruct (Nat.eq_dec t t) as [_|Hx]; [exact I | exfalso; apply Hx; reflexivity]).
    - destruct (vf k v) as [cx|].
      + cbn [fst sset_pc sset_frame h_frame]. destruct (Nat.eq_dec t t) as [_|Hx]; [cbn; lia | exfalso; apply Hx; reflexivity].
      + specialize (IH (l ++ [SVisit t k v])). destruct (h_frame _ t); [cbn [length]; lia | exact I].
  Qed.

  (* a nested call returns into its Range: the frame changes *)
  Lemma sgoto_ret_frame (S0 : mstate) t (q : spc) r l0 f X : q = QRet r -> h_frame S0 t = Some f -> X = Some f ->
    h_frame (fst (sgoto S0 t q l0)) t <> X.
  Proof.
    intros -> Ef ->. cbn [sgoto]. rewrite Ef.
    pose proof (svisits_frame_lt S0 t (rf_rest f) (rf_vf f) (rf_after f) (l0 ++ [SSubRes t r])) as H.
    destruct (h_frame _ t) as [f'|]; [|discriminate]. intros E. inversion E as [E']. rewrite E' in H. lia.
  Qed.

  (* every solo step brings the end of the (possibly nested) call nearer, unless it is the return of a nested call *)
  Lemma mu_step_gen s t p s' ls : TI s -> qcalm s t -> ncbS p -> h_pc s t = p ->
    sstep_pc s t p = Some (s', ls) -> h_frame s' t <> h_frame s t \/ mu s' (h_pc s' t) < mu s p.
  Proof.
    intros HT Hc Hnc Hp Hs. pose proof HT as [[HI [HL [HTt [HP HCS]]]] [[HSV _] [HXF [HXC HK]]]].
    pose proof (rk_pc s HK t) as Hrk. rewrite Hp in Hrk.
    pose proof (xl_pc _ _ _ _ s HL t) as Hv. rewrite Hp in Hv.
    assert (Hrz : srz p = false -> h_resizing s = false) by (intros H; apply (calm_flag s t HT Hc); rewrite Hp; exact H).
    pose proof (xl_tabs _ _ _ _ s HL) as Hok.
    pose proof (Bs_ge s) as HBge.
    destruct p; try (destruct lk); cbn [XMachineS.sstep_pc after_lock] in Hs; cbv zeta in Hs; unfold sfnev in Hs;
      repeat match type of Hs with context [match ?x with _ => _ end] => destruct x eqn:? end;
      try discriminate Hs; apply some_fst_s in Hs; subst s'; cbn [PCI rk_ok ncbS] in Hv, Hrk, Hnc;
      try (pose proof (Hrz eq_refl) as Hz; try congruence);
      try match goal with
          | |- context [sgoto ?S0 t ?q ?l0] =>
              destruct (sgoto_cases S0 t q l0) as [[r0 [f0 [Eq0 Ef0]]]|Eg0];
              [ left; exact (sgoto_ret_frame S0 t q r0 l0 f0 _ Eq0 Ef0 Ef0) | right; rewrite Eg0; clear Eg0 ]
          end;
      try (lazymatch goal with |- context [sgoto _ _ _ _] => fail | |- _ \/ _ => right end);
      try (rewrite svisits_nf by (apply Hnc));
      cbn [h_pc sset_pc]; (destruct (Nat.eq_dec t t) as [_|Hx]; [|exfalso; apply Hx; reflexivity]).
    all: rewrite ?mu_set_pc, ?mu_set_frame.
    all: try (rewrite (mu_view s) by (first [view_solve | cbn [snorm uf]; exact I | apply uf_cont | apply uf_norm; apply contok_uf; tauto])).
    all: cbn [mu snorm body]; unfold attk, stale; rewrite ?Nat.eqb_refl.
    all: try lia.
    all: try (exfalso; pose proof (si_wait s HI t) as Hw; rewrite Hp in Hw; specialize (Hw eq_refl); congruence).
    all: try (try match goal with H : Nat.eqb _ _ = true |- _ => apply Nat.eqb_eq in H; subst end;
              try match goal with H : Nat.eqb _ _ = false |- _ => rewrite ?H end;
              rewrite ?Nat.eqb_refl;
              repeat match goal with H : Nat.ltb _ _ = true |- _ => apply Nat.ltb_lt in H end;
              repeat match goal with H : Nat.ltb _ _ = false |- _ => apply Nat.ltb_ge in H end;
              kt_cases; try (destruct lc; cbn [ltail]); unfold Rz, LEN, NS, snstr in *; cbn [PCI] in *; unfold inr in *; lia).
    (* the read path *)
    all: try (unfold cur_val; rewrite ?kfresh_refl;
              try match goal with H : filter _ (seq 0 nslots) = ?n :: ?l |- _ =>
                    assert (Hlen : length (n :: l) <= nslots) by (rewrite <- H; etransitivity; [apply flen | rewrite seq_length; lia]) end;
              unfold kfresh, idsame, Wb in *; cbn [length] in *;
              repeat match goal with H : ?x = _ |- context [?x] => rewrite H end;
              repeat match goal with |- context [if ?b then _ else _] => destruct b end;
              try (destruct lc; cbn [ltail]); lia).
    all: try (unfold Rr, nbc, Wb in *; match goal with H : Nat.ltb _ _ = true |- _ => apply Nat.ltb_lt in H end; nia).
    all: try (match goal with |- mu _ (snorm ?q) < 1 + mu _ ?q => pose proof (mu_norm s q); lia end).
    all: try (kt_cases; lia).
    all: try (rewrite N.eqb_refl; lia).
    (* lockBucket finds the lock taken: impossible when calm *)
    all: try (exfalso; match goal with H : w_lock (sword_at _ (stab_at _ ?tab) ?b 0) = Some ?n |- _ =>
                change (lock_of s tab b = Some n) in H; pose proof (calm_lock s t tab b n HT Hc H) as ->;
                pose proof (xl_lockB _ _ _ _ s HL t tab b H) as Hh; rewrite Hp in Hh; discriminate Hh end).
    all: try (repeat match goal with H : N.eqb _ _ = _ |- _ => rewrite H end;
              repeat match goal with H : Nat.ltb _ _ = _ |- _ => rewrite len_set_word in H end;
              repeat match goal with H : Nat.ltb _ _ = true |- _ => apply Nat.ltb_lt in H end;
              repeat match goal with H : Nat.ltb _ _ = false |- _ => apply Nat.ltb_ge in H end;
              unfold LEN, inr in *; change (tabT (h_tabs s)) with (stab_at s) in *; lia).
    - (* QStart *) cbn [fst snd sset_pc h_pc]. destruct (Nat.eq_dec t t) as [_|Hx]; [cbn [mu]; lia | exfalso; apply Hx; reflexivity].
    - (* lockBucket of the copy succeeds: the chain is copied under the lock *)
      destruct Hv as [[Hv0 Hvb] [Hvn _]]. cbn [lkok] in Hvn.
      assert (Hne : new <> tab).
      { destruct (xt_pc s HTt t) as [Hle Hn]. rewrite Hp in Hle, Hn. cbn [tabs_le] in Hle. destruct (Hn new eq_refl) as [_ Hlt]. lia. }
      set (S1 := sset_tab s tab (fun tb : mtable => sset_word tb b 0 (fun _ : bword => with_lock v (Some t)))) in *.
      assert (T3 : stab_at S1 new = stab_at s new) by (unfold S1; rewrite stab_set_word; destruct (Nat.eq_dec new tab); [contradiction | reflexivity]).
      assert (T4 : schain_of (stab_at S1 tab) b = schain_of (stab_at s tab) b /\ m_len (stab_at S1 tab) = m_len (stab_at s tab)
                   /\ forall i, rest_ent (stab_at S1 tab) i = rest_ent (stab_at s tab) i).
      { unfold S1. rewrite stab_set_word. destruct (Nat.eq_dec tab tab) as [_|Hx]; [|exfalso; apply Hx; reflexivity].
        destruct (Nat.ltb tab (length (h_tabs s))); repeat split; reflexivity. }
      destruct T4 as [T4 [T5 T6]]. rewrite T3, T4, T5 in Heqp.
      destruct (scopy_chain hash idx tophash nslots (schain_of (stab_at s tab) b) (stab_at s new)) as [nt cp] eqn:Ec.
      inversion Heqp; subst m s0. clear Heqp.
      assert (Hok_new : tb_ok (stab_at s new)) by (apply (tb_ok_tabT nslots nstripes Hslots); exact Hok).
      destruct (scopy_count (schain_of (stab_at s tab) b) (stab_at s new) (proj1 Hok_new)) as [C1 [C2 [C3 [C4 C5]]]].
      rewrite Ec in C1, C2, C3, C4, C5. cbn [fst snd] in C1, C2, C3, C4, C5.
      set (S3 := sset_tab S1 new (fun _ : mtable => sadd_size nt b cp)) in *.
      assert (Hl1 : length (h_tabs S1) = length (h_tabs s)) by (unfold S1, sset_tab; cbn [h_tabs]; apply supd_len).
      assert (U1 : stab_at S3 new = sadd_size nt b cp).
      { unfold S3, XMachineS.stab_at, sset_tab. cbn [h_tabs]. rewrite nth_supd_nth. destruct (Nat.eq_dec new new) as [_|Hx]; [|exfalso; apply Hx; reflexivity].
        fold (h_tabs S1). assert (El : Nat.ltb new (length (h_tabs S1)) = true) by (apply Nat.ltb_lt; lia). rewrite El. reflexivity. }
      assert (U2 : stab_at S3 tab = stab_at S1 tab).
      { unfold S3, XMachineS.stab_at, sset_tab. cbn [h_tabs]. rewrite nth_supd_nth. destruct (Nat.eq_dec tab new) as [Hx|_]; [exfalso; apply Hne; symmetry; exact Hx | reflexivity]. }
      assert (Hsz : 0 < snstr nt).
      { unfold snstr. rewrite C5. pose proof (xc_size _ _ _ _ s HXC) as Hz0. rewrite Forall_forall in Hz0. apply (Hz0 (stab_at s new)). apply nth_In. exact Hvn. }
      assert (V1 : SZ S3 new = (SZ s new + Z.of_nat (nkeys (schain_of (stab_at s tab) b)))%Z).
      { unfold SZ. rewrite U1, (szsum_add_size nt b cp Hsz), C2. unfold szsum. rewrite C5. reflexivity. }
      assert (V2 : EC S3 new = EC s new + nkeys (schain_of (stab_at s tab) b)) by (unfold EC; rewrite U1; exact C1).
      assert (V3 : MB S3 new <= MB s new + nkeys (schain_of (stab_at s tab) b)) by (unfold MB; rewrite U1; exact C3).
      assert (V4 : LEN S3 new = LEN s new) by (unfold LEN; rewrite U1; exact C4).
      assert (V5 : NS S3 new = NS s new) by (unfold NS; rewrite U1, (proj2 (len_add_size nt b cp)); unfold snstr; rewrite C5; reflexivity).
      assert (V6 : LEN S3 tab = LEN s tab) by (unfold LEN; rewrite U2; exact T5).
      assert (V7 : forall i, rest_ent (stab_at S3 tab) i = rest_ent (stab_at s tab) i) by (intros i; rewrite U2; apply T6).
      assert (Hst : rest_ent (stab_at s tab) b = nkeys (schain_of (stab_at s tab) b) + rest_ent (stab_at s tab) (S b)) by (apply rest_ent_step; exact Hvb).
      right. rewrite sgoto_fst_q0 by (destruct (Nat.ltb (S b) (m_len (stab_at s tab))); discriminate). cbn [h_pc sset_pc snorm].
      destruct (Nat.eq_dec t t) as [_|Hx]; [|exfalso; apply Hx; reflexivity]. rewrite mu_set_pc. cbn [mu].
      rewrite Heqb0. unfold attk. destruct (kdone kt) eqn:Ek.
      + destruct (Nat.ltb (S b) (m_len (stab_at s tab))) eqn:El; cbn [mu body]; unfold attk; rewrite Ek.
        * apply Nat.ltb_lt in El. unfold LEN in *. rewrite V6. set (M := m_len (stab_at s tab)) in *. lia.
        * apply Nat.ltb_ge in El. unfold LEN in *. set (M := m_len (stab_at s tab)) in *. change (tabT (h_tabs s) tab) with (stab_at s tab) in Hvb. fold M in Hvb. lia.
      + destruct (Nat.ltb (S b) (m_len (stab_at s tab))) eqn:El; cbn [mu body]; unfold attk; rewrite Ek.
        * apply Nat.ltb_lt in El.
          assert (Ha : acopy S3 tab new (S b) <= acopy s tab new b).
          { unfold acopy. rewrite V1, V2, V4, V5, V7, Hst.
            replace (SZ s new + Z.of_nat (nkeys (schain_of (stab_at s tab) b)) + Z.of_nat (rest_ent (stab_at s tab) (S b)))%Z
              with (SZ s new + Z.of_nat (nkeys (schain_of (stab_at s tab) b) + rest_ent (stab_at s tab) (S b)))%Z by lia.
            replace (EC s new + nkeys (schain_of (stab_at s tab) b) + rest_ent (stab_at s tab) (S b))
              with (EC s new + (nkeys (schain_of (stab_at s tab) b) + rest_ent (stab_at s tab) (S b))) by lia.
            apply Acost_mono; lia. }
          unfold LEN in *. rewrite V6. set (M := m_len (stab_at s tab)) in *. lia.
        * apply Nat.ltb_ge in El.
          assert (Ha : Acost (gof (SZ S3 new) (EC S3 new) (LEN S3 new)) (LEN S3 new) (NS S3 new) (MB S3 new) (EC S3 new) <= acopy s tab new b).
          { unfold acopy. rewrite V1, V2, V4, V5, Hst, (rest_ent_end (stab_at s tab) (S b) El), !Nat.add_0_r.
            apply Acost_mono; lia. }
          unfold LEN in *. set (M := m_len (stab_at s tab)) in *. change (tabT (h_tabs s) tab) with (stab_at s tab) in Hvb. fold M in Hvb. lia.
    - (* QW_ChkTab: the locked scan begins *)
      apply Nat.eqb_eq in Heqb. subst tab. rewrite Nat.eqb_refl.
      pose proof (nbk_le_maxnb (stab_at s (h_cur s)) (shome (stab_at s (h_cur s)) (sc_k cx))) as Hnb. fold (MB s (h_cur s)) in Hnb.
      unfold gsum, gtail, Bs, gof, Rz. rewrite Nat.eqb_refl. cbn [andb].
      change (rest_sz (stab_at s (h_cur s)) 0) with (SZ s (h_cur s)). rewrite Z.add_0_l.
      destruct ((if (SZ s (h_cur s) =? Z.of_nat (EC s (h_cur s)))%Z then 0 else 1) + (EC s (h_cur s) - LEN s (h_cur s))) as [|g']; cbn [Acost]; lia.
    - (* QW_D3: the key pointer is cleared; the bucket is left empty, the shrink check follows *)
      cbn [kdone].
      match goal with |- context [sset_tab s ?tab ?f] =>
        assert (Hsv : sview (sset_tab s tab f) = sview s) by (apply sview_set_tab; intros; apply len_set_chain);
        destruct (sview_acc s (sset_tab s tab f) Hsv) as [_ [E2 E3]] end.
      rewrite E3, (proj2 (E2 tab)). lia.
    - (* QW_Sum: one more stripe *)
      apply Nat.ltb_lt in Heqb.
      assert (Ei : i < snstr (stab_at s tab)) by lia.
      assert (Eg : gsum s tab (S i) (acc + sstripe (stab_at s tab) i) = gsum s tab i acc).
      { unfold gsum. rewrite (rest_sz_step (stab_at s tab) i Ei).
        replace (acc + sstripe (stab_at s tab) i + rest_sz (stab_at s tab) (S i))%Z with (acc + (sstripe (stab_at s tab) i + rest_sz (stab_at s tab) (S i)))%Z by lia.
        reflexivity. }
      rewrite Eg. unfold NS. lia.
    - (* QW_Sum: the last stripe, and the table has to grow *)
      cbn [hgrow kdone]. apply Hgrow in Heqb0. apply Nat.ltb_ge in Heqb.
      assert (Ers : (acc + rest_sz (stab_at s tab) i = acc + sstripe (stab_at s tab) i)%Z).
      { destruct (Nat.lt_ge_cases i (snstr (stab_at s tab))) as [L|L].
        - rewrite (rest_sz_step _ i L). destruct (rest_sz_end (stab_at s tab) (S i) Heqb) as [-> _]. lia.
        - destruct (rest_sz_end (stab_at s tab) i L) as [-> ->]. lia. }
      unfold gsum, gtail, agrow. rewrite Ers.
      assert (HL0 : 0 < LEN s (h_cur s)).
      { unfold LEN. apply (tb_ok_tabT nslots nstripes Hslots (h_tabs s) (h_cur s) Hok). }
      set (L := LEN s (h_cur s)) in *. set (E := EC s (h_cur s)) in *.
      assert (Hm : forall g', E - 2 * L <= g' -> Acost (E - 2 * L) (2 * L) (nstripes (2 * L)) (1 + E) E <= Acost g' (2 * L) (nstripes (2 * L)) (1 + E) E)
        by (intros g' Hg; apply Acost_mono; [exact Hg | lia]).
      destruct (Nat.eqb (h_cur s) tab) eqn:Et; cbn [andb].
      + apply Nat.eqb_eq in Et. subst tab. destruct (Z.eqb _ _) eqn:Ez.
        * apply Z.eqb_eq in Ez. fold (LEN s (h_cur s)) in Heqb0. fold L in Heqb0.
          assert (HLE : L < E) by lia. destruct (0 + (E - L)) as [|g'] eqn:Eg; [lia|].
          specialize (Hm g' ltac:(lia)). unfold NS. lia.
        * destruct (1 + (E - L)) as [|g'] eqn:Eg; [lia|]. specialize (Hm g' ltac:(lia)). unfold NS. lia.
      + destruct (1 + (E - L)) as [|g'] eqn:Eg; [lia|]. specialize (Hm g' ltac:(lia)). unfold NS. lia.
    - (* QA_Add *)
      destruct Hrk as [Hk1 Hk2].
      match goal with |- context [sset_tab s ?tab ?f] =>
        assert (Hsv : sview (sset_tab s tab f) = sview s) by (apply sview_set_tab; intros; apply len_add_size);
        destruct (sview_acc s (sset_tab s tab f) Hsv) as [_ [E2 E3]] end.
      destruct p; try contradiction; cbn [snorm mu rk_ok] in *; [lia|].
      rewrite E3, (proj2 (E2 known)). kt_cases. lia.
    - (* QR_Stat, grow: the new table is allocated *)
      destruct Hv as [Hv _]. rewrite (Nat.mul_comm (m_len (stab_at s tab)) 2).
      match goal with |- context [LEN ?S2 _] => destruct (push_acc S2 s _ eq_refl) as [Po Pn] end.
      destruct (new_table_facts (2 * m_len (stab_at s tab)) (seeds (length (h_tabs s)))) as [N1 [N2 [N3 [N4 N5]]]].
      unfold acopy, agrow, LEN, NS, EC, SZ, MB. rewrite !(Po tab Hv), !Pn, N1, N2, N3, N4.
      change (rest_ent (stab_at s tab) 0) with (ecount (stab_at s tab)).
      unfold gof. rewrite Z.add_0_l, Nat.add_0_l, Z.eqb_refl. cbn [hgrow].
      set (L := m_len (stab_at s tab)) in *. set (E := ecount (stab_at s tab)) in *.
      pose proof (Acost_mono (E - 2 * L) (0 + (E - 2 * L)) (2 * L) (nstripes (2 * L)) (1 + E)
                    (maxnb (new_mtable nslots nstripes (2 * L) (seeds (length (h_tabs s)))) + E) E ltac:(lia) ltac:(lia)) as Hm.
      unfold attk. destruct (kdone kt); lia.
    - exfalso. apply Nat.ltb_ge in Heqb. pose proof (proj1 (tb_ok_tabT nslots nstripes Hslots (h_tabs s) tab Hok)) as W. unfold XMachineS.stab_at in Heqb. unfold XS_lock.tabT in W. lia.
    - (* QR_Stat, shrink *)
      destruct Hv as [Hv _].
      match goal with |- context [LEN ?S2 _] => destruct (push_acc S2 s _ eq_refl) as [Po Pn] end.
      unfold LEN. rewrite !(Po tab Hv). kt_cases; lia.
    - (* QR_Stat, Clear hint (never reached) *)
      destruct Hv as [Hv _].
      match goal with |- context [LEN ?S2 _] => destruct (push_acc S2 s _ eq_refl) as [Po Pn] end.
      unfold LEN. rewrite !(Po tab Hv). kt_cases; lia.
    - (* QR_Publish: the new table becomes the current one *)
      change (Bs (sset_flags s new (h_resizing s) (h_rmu s)))
        with (Acost (gof (SZ s new) (EC s new) (LEN s new)) (LEN s new) (NS s new) (MB s new) (EC s new)).
      destruct (kdone kt); lia.
  Qed.



  (* ---------------- along a solo run: no frame, no callback; the invariants; calmness ---------------- *)

  Lemma ncb_cont kt : ncb (@srun_cont K V kt).
  Proof. destruct kt; exact I. Qed.

  Lemma nc_step s t p s' ls : h_frame s t = None -> ncb p -> sstep_pc s t p = Some (s', ls) ->
    h_frame s' t = None /\ ncb (h_pc s' t).
  Proof.
    intros Hfr Hnc Hs.
    destruct p; try (destruct lk); cbn [XMachineS.sstep_pc after_lock] in Hs; cbv zeta in Hs; unfold sfnev in Hs;
      repeat match type of Hs with context [match ?x with _ => _ end] => destruct x eqn:? end;
      try discriminate Hs; apply some_fst_s in Hs; subst s'; cbn [ncb ncb_lk] in Hnc;
      rewrite ?sgoto_nf by (cbn [h_frame sset_tab sset_flags spush_tab sbump]; exact Hfr);
      try (rewrite svisits_nf by (apply Hnc));
      cbn [h_pc h_frame sset_pc sset_frame sset_tab sset_flags spush_tab sbump fst]; (destruct (Nat.eq_dec t t) as [_|Hx]; [|exfalso; apply Hx; reflexivity]).
    all: try (split; [first [exact Hfr | reflexivity] | first [exact I | apply ncb_norm; first [apply ncb_cont | tauto | exact I] | cbn [snorm ncb ncb_lk]; tauto]]).
    (* the copy *)
    match type of Heqp with (let '(_, _) := ?X in _) = _ => destruct X as [nt cp] end. inversion Heqp; subst m s0.
    rewrite sgoto_nf by (cbn [h_frame sset_tab]; exact Hfr). cbn [h_pc h_frame sset_pc sset_tab snorm].
    destruct (Nat.eq_dec t t) as [_|Hx]; [|exfalso; apply Hx; reflexivity]. split; [exact Hfr|]. cbn [ncb]. split; [exact I|].
    destruct (Nat.ltb _ _); exact I.
  Qed.



  Lemma mu_step s t p s' ls : TI s -> qcalm s t -> h_frame s t = None -> ncb p -> h_pc s t = p ->
    sstep_pc s t p = Some (s', ls) -> mu s' (h_pc s' t) < mu s p.
  Proof.
    intros HT Hc Hfr Hnc Hp Hs.
    destruct (mu_step_gen s t p s' ls HT Hc (ncb_ncbS p Hnc) Hp Hs) as [H|H]; [|exact H].
    exfalso. apply H. rewrite Hfr. apply (nc_step s t p s' ls Hfr Hnc Hs).
  Qed.

  Lemma sstart_rk (o : @sop K V) : rk_ok (sstart_pc o) /\ forall r, sstart_pc o <> QRet r.
  Proof.
    destruct o; cbn [sstart_pc]; try (split; [exact I | discriminate]). split; [apply start_cx_rk|].
    intros r. unfold sstart_cx. destruct (sc_lie _); discriminate.
  Qed.

  Lemma RK_invoke s t o rest : RK s -> RK (sinvoke s t o rest).
  Proof.
    intros HK. destruct (sstart_rk o) as [A B]. constructor; cbn [XS_count.sinvoke h_pc h_frame].
    - intros u. destruct (Nat.eq_dec u t); [exact A | apply (rk_pc s HK)].
    - apply (rk_fr s HK).
    - intros u r. destruct (Nat.eq_dec u t); [apply B | apply (rk_nr s HK)].
  Qed.

  Lemma RK_sstep s t s' ls : RK s -> sstep s t = Some (s', ls) -> RK s'.
  Proof.
    intros HK E. unfold XMachineS.sstep in E.
    destruct (h_pc s t) eqn:Hp; try (eapply RK_step_pc; [exact HK | exact Hp | exact E]).
    destruct (h_todo s t) as [|o rest]; [discriminate|].
    change (match sstep_pc (sinvoke s t o rest) t (sstart_pc o) with
            | Some (s2, ls0) => Some (s2, SInv t o :: ls0)
            | None => Some (sinvoke s t o rest, [SInv t o])
            end = Some (s', ls)) in E.
    destruct (sstep_pc (sinvoke s t o rest) t (sstart_pc o)) as [[s2 ls0]|] eqn:E2.
    - inversion E; subst s2 ls. eapply RK_step_pc; [apply RK_invoke; exact HK | | exact E2]. cbn [XS_count.sinvoke h_pc]. destruct (Nat.eq_dec t t); congruence.
    - inversion E; subst s'. apply RK_invoke. exact HK.
  Qed.

  Lemma TI_sstep s t s' ls : TI s -> sstep s t = Some (s', ls) -> TI s'.
  Proof.
    intros [HB [HSV [HXF [HXC HK]]]] E. pose proof HB as [HI [HL [HTt _]]].
    split; [eapply (XB_sstep eqd hash idx tophash nslots seeds grow_needed shrink_policy nstripes minlen grow_only Hslots Hnslots Htop Hidx Hminlen); eassumption|].
    split; [eapply X_maps.SV_sstep; eassumption|]. split; [eapply XF_sstep; eassumption|]. split; [|eapply RK_sstep; eassumption].
    destruct (XA_sstep eqd hash idx tophash nslots seeds grow_needed shrink_policy nstripes minlen grow_only Hslots Hidx Hminlen Hstripes
                s t s' ls (conj HI (conj HL (conj HTt HXC))) E) as [_ [_ [_ H]]]. exact H.
  Qed.

  Lemma TI_srun sched : forall s, TI s -> TI (fst (srun s sched)).
  Proof.
    induction sched as [|t rest IH]; intros s H; cbn [XMachineS.srun]; [exact H|].
    destruct (sstep s t) as [[s' ls]|] eqn:E; [|apply IH; exact H].
    specialize (IH s' (TI_sstep s t s' ls H E)). destruct (XMachineS.srun _ _ _ _ _ _ _ _ _ _ _ s' rest). exact IH.
  Qed.

  Lemma TI_init len0 todo : 0 < len0 -> TI (sinit nslots seeds nstripes len0 todo).
  Proof.
    intros Hl. split; [apply (XB_init hash idx tophash nslots seeds nstripes minlen); assumption|].
    split; [split; cbn; intros; [exact I | discriminate]|].
    split; [apply (reachable_XF eqd hash idx tophash nslots seeds grow_needed shrink_policy nstripes minlen grow_only len0 todo [])|].
    split; [apply (XC_init hash idx nslots seeds nstripes Hstripes)|].
    constructor; cbn; intros; try exact I; discriminate.
  Qed.

  Lemma TI_invoke s t o rest : TI s -> h_pc s t = QIdle -> TI (sinvoke s t o rest).
  Proof.
    intros [HB [HSV [HXF [HXC HK]]]] Hp. pose proof HB as [HI [HL [HTt _]]].
    split; [apply invoke_XB; assumption|].
    split; [destruct HSV as [A B]; split; [|exact B]; intros u; cbn [XS_count.sinvoke h_pc]; destruct (Nat.eq_dec u t); [apply X_maps.sstart_ok | apply A]|].
    split; [apply XF_invoke; exact HXF|]. split; [|apply RK_invoke; exact HK].
    destruct (invoke_inv hash idx nslots nstripes s t o rest Hp HI HL HTt HXC) as [_ [_ [_ H]]]. exact H.
  Qed.

  Lemma sholds_none_indep T T' (p : spc) : sholdsT hash idx nslots nstripes T p = None -> sholdsT hash idx nslots nstripes T' p = None.
  Proof. destruct p; cbn; intros H; try discriminate H; reflexivity. Qed.

  Definition pcq (p p' : spc) : Prop := p' = p \/ p' = swake p.

  Lemma pcq_trans (a b c : spc) : pcq a b -> pcq b c -> pcq a c.
  Proof. unfold pcq. intros [->| ->] [->| ->]; auto. right. destruct a; reflexivity. Qed.

  Lemma quiet3_wake T (p : spc) : sholdsT hash idx nslots nstripes T p = None /\ smu p = false /\ srz p = false ->
    sholdsT hash idx nslots nstripes T (swake p) = None /\ smu (swake p) = false /\ srz (swake p) = false.
  Proof. destruct p; cbn; auto. Qed.

  Lemma todo_visits (S0 : mstate) t rest vf after ls : h_todo (fst (svisits S0 t rest vf after ls)) = h_todo S0.
  Proof.
    revert ls. induction rest as [|[k v] r IH]; intros ls; cbn [svisits]; [destruct after; reflexivity|].
    destruct (vf k v); [reflexivity | apply IH].
  Qed.

  Lemma todo_goto (S0 : mstate) t q ls : h_todo (fst (sgoto S0 t q ls)) = h_todo S0.
  Proof. destruct q; cbn [sgoto]; try reflexivity. destruct (h_frame S0 t); [apply todo_visits | reflexivity]. Qed.

  Lemma step_todo s t p s' ls : sstep_pc s t p = Some (s', ls) -> h_todo s' = h_todo s.
  Proof.
    intros Hs. destruct p; try (destruct lk); cbn [XMachineS.sstep_pc after_lock] in Hs; cbv zeta in Hs; unfold sfnev in Hs;
      repeat match type of Hs with context [match ?x with _ => _ end] => destruct x eqn:? end;
      try discriminate Hs; apply some_fst_s in Hs; subst s'; rewrite ?todo_goto, ?todo_visits; try reflexivity.
    match type of Heqp with (let '(_, _) := ?X in _) = _ => destruct X as [nt cp] end. inversion Heqp; subst m s0. reflexivity.
  Qed.

  Lemma qcalm_step s t p s' ls : TI s -> qcalm s t -> h_pc s t = p -> sstep_pc s t p = Some (s', ls) ->
    (forall u, u <> t -> pcq (h_pc s u) (h_pc s' u)) /\ qcalm s' t /\ h_todo s' = h_todo s
    /\ (forall u, u <> t -> h_frame s' u = h_frame s u).
  Proof.
    intros [[HI _] _] Hc Hp Hs.
    assert (HF : frames_ok s) by (intros u fr E; apply (si_frame s HI u fr E)).
    assert (Hw : swf p) by (rewrite <- Hp; apply (si_wf s HI)).
    destruct (sstep_effect eqd hash idx tophash nslots seeds grow_needed shrink_policy nstripes minlen grow_only s t p s' ls HF Hw Hs) as [Hoth _].
    assert (Ho : forall u, u <> t -> pcq (h_pc s u) (h_pc s' u)).
    { intros u Hne. rewrite (Hoth u Hne). destruct (is_bcast_s p); [right | left]; reflexivity. }
    split; [exact Ho|]. split; [|split].
    - intros u Hne. destruct (Hc u Hne) as [A [B C]].
      assert (Q : sholds s' (h_pc s u) = None /\ smu (h_pc s u) = false /\ srz (h_pc s u) = false)
        by (split; [apply (sholds_none_indep (h_tabs s)); exact A | auto]).
      destruct (Ho u Hne) as [E|E]; rewrite E; [exact Q | apply quiet3_wake; exact Q].
    - apply (step_todo s t p s' ls Hs).
    - apply (step_frame_oth eqd hash idx tophash nslots seeds grow_needed shrink_policy nstripes minlen grow_only s t p s' ls Hs).
  Qed.


  (* ---------------- a call that ends emits its result ---------------- *)

  Lemma some_pair_s {A B} (g : A * B) a b : Some g = Some (a, b) -> a = fst g /\ b = snd g.
  Proof. intros H. inversion H. auto. Qed.

  Lemma goto_ret (S0 : mstate) t (q : spc) (l0 : list slabel) : h_frame S0 t = None ->
    ((forall r, q <> QRet r) -> snorm q <> QIdle) -> q <> QStart ->
    h_pc (fst (sgoto S0 t q l0)) t <> QStart
    /\ (h_pc (fst (sgoto S0 t q l0)) t = QIdle -> exists r, In (SRes t r) (snd (sgoto S0 t q l0))).
  Proof.
    intros Hf Hq Hs. rewrite (sgoto_noframe S0 t q l0 Hf).
    destruct q; cbn [fst snd sset_pc h_pc]; (destruct (Nat.eq_dec t t) as [_|Hx]; [|exfalso; apply Hx; reflexivity]);
      try (split; [discriminate | intros E; discriminate E]).
    - exfalso. apply Hs. reflexivity.
    - exfalso. apply Hq; [intros r0; discriminate | reflexivity].
    - split; [discriminate|]. intros _. exists r. apply in_or_app. right. left. reflexivity.
  Qed.

  Lemma visits_ret (S0 : mstate) t snap vf (q : spc) : ncb_vf vf -> forall l0,
    ((forall r, q <> QRet r) -> snorm q <> QIdle) -> q <> QStart ->
    h_pc (fst (svisits S0 t snap vf q l0)) t <> QStart
    /\ (h_pc (fst (svisits S0 t snap vf q l0)) t = QIdle -> exists r, In (SRes t r) (snd (svisits S0 t snap vf q l0))).
  Proof.
    intros Hv. induction snap as [|[k v] r IH]; intros l0 Hq Hs; cbn [svisits].
    - destruct q; cbn [fst snd sset_pc h_pc]; (destruct (Nat.eq_dec t t) as [_|Hx]; [|exfalso; apply Hx; reflexivity]);
        try (split; [discriminate | intros E; discriminate E]).
      + exfalso. apply Hs. reflexivity.
      + exfalso. apply Hq; [intros r0; discriminate | reflexivity].
      + split; [discriminate|]. intros _. exists r. apply in_or_app. right. left. reflexivity.
    - rewrite (Hv k v). apply IH; assumption.
  Qed.

  Lemma contok_norm (a : spc) : contok a -> ((forall r, a <> QRet r) -> snorm a <> QIdle) /\ a <> QStart.
  Proof. destruct a; cbn [contok]; intros H; try contradiction; split; try discriminate; intros Hr; cbn [snorm]; try discriminate. exfalso. eapply Hr. reflexivity. Qed.

  Lemma step_ret s t p s' ls : rk_ok p -> h_frame s t = None -> ncb p -> sstep_pc s t p = Some (s', ls) ->
    h_pc s' t <> QStart /\ (h_pc s' t = QIdle -> p = QStart \/ exists r, In (SRes t r) ls).
  Proof.
    intros Hrk Hfr Hnc Hs.
    destruct p; try (destruct lk); cbn [XMachineS.sstep_pc after_lock] in Hs; cbv zeta in Hs; unfold sfnev in Hs;
      repeat match type of Hs with context [match ?x with _ => _ end] => destruct x eqn:? end;
      try discriminate Hs; apply some_pair_s in Hs; destruct Hs as [-> ->]; cbn [rk_ok ncb ncb_lk] in Hrk, Hnc.
    all: try match goal with |- context [sgoto ?S0 ?T ?q ?l0] =>
           destruct (goto_ret S0 T q l0) as [G1 G2];
           [ cbn [h_frame sset_tab sset_flags spush_tab sbump]; exact Hfr | | | split; [exact G1 | intros E; right; apply G2; exact E]] end.
    all: try match goal with |- context [svisits ?S0 ?T ?sn ?vf ?q ?l0] =>
           destruct (visits_ret S0 T sn vf q (proj1 Hnc) l0) as [G1 G2];
           [ | | split; [exact G1 | intros E; right; apply G2; exact E]] end.
    all: try (intros Hr; cbn [snorm]; discriminate).
    all: try discriminate.
    all: try (intros Hr; exfalso; eapply Hr; reflexivity).
    all: try (intros Hr; destruct lc; cbn [snorm]; try discriminate; exfalso; eapply Hr; reflexivity).
    all: try match goal with |- context [srun_cont ?kt] => destruct kt; cbn [srun_cont snorm]; try discriminate; intros Hr; try discriminate; exfalso; eapply Hr; reflexivity end.
    all: try match goal with |- context [srun_cont ?kt] => destruct kt; cbn [srun_cont]; discriminate end.
    all: try (destruct lc; discriminate).
    all: try (apply contok_norm; tauto).
    all: try (match type of Hrk with _ /\ _ => destruct Hrk as [Hk Hk'] end; destruct p; try contradiction; cbn [snorm]; try discriminate; intros Hr; exfalso; eapply Hr; reflexivity).
    all: try (match type of Hrk with _ /\ _ => destruct Hrk as [Hk Hk'] end; destruct p; try contradiction; discriminate).
    - cbn [fst snd sset_pc h_pc]. destruct (Nat.eq_dec t t) as [_|Hx]; [|exfalso; apply Hx; reflexivity]. split; [discriminate | auto].
    - match type of Heqp with (let '(_, _) := ?X in _) = _ => destruct X as [nt cp] end. inversion Heqp; subst m s0.
      match goal with |- context [sgoto ?S0 ?T ?q ?l0] =>
        destruct (goto_ret S0 T q l0) as [G1 G2];
          [ cbn [h_frame sset_tab]; exact Hfr | intros _; discriminate | discriminate | split; [exact G1 | intros E; right; apply G2; exact E]] end.
  Qed.

  (* ---------------- (T1) solo completion, threads whose Range visitors do not call the map ---------------- *)

  Definition incall (p : spc) : Prop := p <> QIdle /\ p <> QStart.

  Lemma pc_eq_idle (p : spc) : p = QIdle \/ p <> QIdle.
  Proof. destruct p; try (right; discriminate). left. reflexivity. Qed.

  Lemma sstep_of_pc s t : h_pc s t <> QIdle -> sstep s t = sstep_pc s t (h_pc s t).
  Proof. intros H. unfold XMachineS.sstep. destruct (h_pc s t); try reflexivity. congruence. Qed.

  Lemma srun_repeat_S s t m s1 ls1 : sstep s t = Some (s1, ls1) ->
    srun s (repeat t (S m)) = (fst (srun s1 (repeat t m)), ls1 ++ snd (srun s1 (repeat t m))).
  Proof.
    intros E. cbn [repeat XMachineS.srun]. rewrite E. destruct (XMachineS.srun _ _ _ _ _ _ _ _ _ _ _ s1 (repeat t m)). reflexivity.
  Qed.

  Theorem solo_completes_q t : forall n s, TI s -> qcalm s t -> h_frame s t = None -> ncb (h_pc s t) -> incall (h_pc s t) ->
    mu s (h_pc s t) <= n ->
    exists m, m <= n /\
      let r := srun s (repeat t m) in
      h_pc (fst r) t = QIdle /\ h_frame (fst r) t = None /\ (exists res, In (SRes t res) (snd r))
      /\ TI (fst r) /\ qcalm (fst r) t
      /\ (forall u, u <> t -> pcq (h_pc s u) (h_pc (fst r) u) /\ h_frame (fst r) u = h_frame s u) /\ h_todo (fst r) = h_todo s.
  Proof.
    induction n as [|n IH]; intros s HT Hc Hfr Hnc [Hni Hns] Hb.
    - exfalso. destruct (sstep_pc s t (h_pc s t)) as [[s1 ls1]|] eqn:E.
      + pose proof (mu_step s t _ s1 ls1 HT Hc Hfr Hnc eq_refl E). lia.
      + apply (calm_enabled s t HT Hc Hni E).
    - destruct (sstep_pc s t (h_pc s t)) as [[s1 ls1]|] eqn:E; [|exfalso; apply (calm_enabled s t HT Hc Hni E)].
      pose proof (mu_step s t _ s1 ls1 HT Hc Hfr Hnc eq_refl E) as Hdec.
      assert (Ex : sstep s t = Some (s1, ls1)) by (rewrite (sstep_of_pc s t Hni); exact E).
      pose proof (TI_sstep s t s1 ls1 HT Ex) as HT1.
      destruct (qcalm_step s t _ s1 ls1 HT Hc eq_refl E) as [Ho [Hc1 [Htd Hfo]]].
      destruct (nc_step s t _ s1 ls1 Hfr Hnc E) as [Hfr1 Hnc1].
      pose proof HT as [_ [_ [_ [_ HK]]]].
      destruct (step_ret s t _ s1 ls1 (rk_pc s HK t) Hfr Hnc E) as [R1 R2].
      destruct (pc_eq_idle (h_pc s1 t)) as [Ei|Ei].
      + exists 1. split; [lia|]. cbv zeta. rewrite (srun_repeat_S s t 0 s1 ls1 Ex). cbn [repeat XMachineS.srun fst snd]. rewrite app_nil_r.
        split; [exact Ei|]. split; [exact Hfr1|]. split; [destruct (R2 Ei) as [F|F]; [contradiction | exact F]|].
        split; [exact HT1|]. split; [exact Hc1|]. split; [intros u Hne; split; [apply Ho | apply Hfo]; exact Hne | exact Htd].
      + destruct (IH s1 HT1 Hc1 Hfr1 Hnc1 (conj Ei R1) ltac:(lia)) as [m [Hm Hfin]]. cbv zeta in Hfin.
        exists (S m). split; [lia|]. cbv zeta. rewrite (srun_repeat_S s t m s1 ls1 Ex). cbn [fst snd].
        destruct Hfin as [F1 [F1' [[res F2] [F3 [F4 [F5 F6]]]]]].
        split; [exact F1|]. split; [exact F1'|]. split; [exists res; apply in_or_app; right; exact F2|]. split; [exact F3|]. split; [exact F4|].
        split; [|rewrite F6; exact Htd].
        intros u Hne. destruct (F5 u Hne) as [A B]. split; [eapply pcq_trans; [apply Ho; exact Hne | exact A] | rewrite B; apply Hfo; exact Hne].
  Qed.



  (* ---------------- from the call itself ---------------- *)

  Lemma mu_invoke s t o rest (q : spc) : mu (sinvoke s t o rest) q = mu s q.
  Proof. induction q; cbn [mu]; try reflexivity; rewrite IHq; reflexivity. Qed.

  Lemma sstart_facts (o : @sop K V) : ncb_op o -> ncb (sstart_pc o) /\ incall (sstart_pc o).
  Proof.
    intros H. destruct o; cbn [sstart_pc ncb ncb_op] in *; try (split; [exact I | split; discriminate]).
    - split; [apply start_cx_ncb|]. unfold sstart_cx. destruct (sc_lie _); split; discriminate.
    - split; [exact H | split; discriminate].
  Qed.

  Lemma calm_invoked s t o rest : calm s t -> calm (sinvoke s t o rest) t.
  Proof. intros Hc u Hne. cbn [XS_count.sinvoke h_pc]. destruct (Nat.eq_dec u t); [contradiction | apply (Hc u Hne)]. Qed.

  Lemma pcq_not_waiting (p p' : spc) : pcq p p' -> swaiting p = false -> p' = p.
  Proof. intros [->| ->] H; [reflexivity|]. destruct p; try reflexivity. discriminate H. Qed.

  (* the bound as a function of the state *)
  Definition tbound (s : mstate) (t : nat) : nat :=
    match h_pc s t with
    | QIdle => match h_todo s t with o :: _ => mu s (sstart_pc o) | [] => 0 end
    | p => mu s p
    end.

  (* (T1) thread t is idle, its next call is o (a Range only with a visitor that does not call the map), the state is calm
     for t.  Run alone, t invokes o and returns from it within [tbound s t] of its own steps -- the spin loop of lockBucket
     takes two steps per lock, a grow / shrink / Clear and the retry after it included --; nobody else moves *)
  Theorem s_solo_call s t o rest : TI s -> calm s t -> h_pc s t = QIdle -> h_todo s t = o :: rest -> ncb_op o ->
    exists m, m <= tbound s t /\
      let r := srun s (repeat t m) in
      h_pc (fst r) t = QIdle /\ h_todo (fst r) t = rest
      /\ In (SInv t o) (snd r) /\ (exists res, In (SRes t res) (snd r))
      /\ TI (fst r) /\ calm (fst r) t
      /\ (forall u, u <> t -> h_pc (fst r) u = h_pc s u /\ h_todo (fst r) u = h_todo s u /\ h_frame (fst r) u = h_frame s u).
  Proof.
    intros HT Hc Hp Ht Ho. set (s1 := sinvoke s t o rest).
    pose proof (TI_invoke s t o rest HT Hp) as HT1. pose proof (calm_invoked s t o rest Hc) as Hc1. fold s1 in HT1, Hc1.
    assert (Ep : h_pc s1 t = sstart_pc o) by (unfold s1; cbn [XS_count.sinvoke h_pc]; destruct (Nat.eq_dec t t); congruence).
    destruct (sstart_facts o Ho) as [Hn Hin].
    assert (Hfr : h_frame s1 t = None).
    { unfold s1. cbn [XS_count.sinvoke h_frame]. destruct HT as [_ [_ [HXF _]]]. apply (xf_idle s HXF). rewrite Hp. exact (fun H => H). }
    destruct (solo_completes_q t (mu s1 (h_pc s1 t)) s1 HT1 (calm_q _ _ Hc1) Hfr) as [m [Hm Hfin]];
      [rewrite Ep; exact Hn | rewrite Ep; exact Hin | apply le_n|]. cbv zeta in Hfin.
    destruct m as [|m]; [cbn [repeat XMachineS.srun fst] in Hfin; destruct Hfin as [F _]; rewrite Ep in F; destruct Hin as [Hx _]; contradiction|].
    exists (S m). split; [unfold tbound; rewrite Hp, Ht; rewrite Ep in Hm; unfold s1 in Hm; rewrite mu_invoke in Hm; exact Hm|].
    assert (Hne : sstep_pc s1 t (sstart_pc o) <> None) by (rewrite <- Ep; apply (calm_enabled s1 t HT1 (calm_q _ _ Hc1)); rewrite Ep; apply Hin).
    cbv zeta. rewrite (invoke_run eqd hash idx tophash nslots seeds grow_needed shrink_policy nstripes minlen grow_only s t o rest m Hp Ht Hne).
    fold s1. cbn [fst snd].
    destruct Hfin as [F1 [F1' [[res F2] [F3 [F4 [F5 F6]]]]]].
    assert (Hoth : forall u, u <> t -> h_pc (fst (srun s1 (repeat t (S m)))) u = h_pc s u).
    { intros u Hne'. destruct (F5 u Hne') as [A _]. rewrite (pcq_not_waiting _ _ A); [|apply (Hc1 u Hne')].
      unfold s1. cbn [XS_count.sinvoke h_pc]. destruct (Nat.eq_dec u t); [contradiction | reflexivity]. }
    split; [exact F1|]. split; [rewrite F6; unfold s1; cbn [XS_count.sinvoke h_todo]; destruct (Nat.eq_dec t t); congruence|].
    split; [left; reflexivity|]. split; [exists res; right; exact F2|]. split; [exact F3|]. split.
    - intros u Hne'. destruct (F4 u Hne') as [A [B C]]. split; [exact A|]. split; [exact B|]. split; [exact C|].
      rewrite (Hoth u Hne'). apply (Hc u Hne').
    - intros u Hne'. split; [apply Hoth; exact Hne'|]. split.
      + rewrite F6. unfold s1. cbn [XS_count.sinvoke h_todo]. destruct (Nat.eq_dec u t); [contradiction | reflexivity].
      + destruct (F5 u Hne') as [_ B]. rewrite B. reflexivity.
  Qed.

  (* (T1) for a thread inside a call (no Range frame, no visitor that calls the map) *)
  Theorem s_solo_finish s t : TI s -> calm s t -> h_frame s t = None -> ncb (h_pc s t) -> incall (h_pc s t) ->
    exists m, m <= tbound s t /\
      let r := srun s (repeat t m) in
      h_pc (fst r) t = QIdle /\ (exists res, In (SRes t res) (snd r))
      /\ TI (fst r) /\ calm (fst r) t
      /\ (forall u, u <> t -> h_pc (fst r) u = h_pc s u /\ h_frame (fst r) u = h_frame s u) /\ h_todo (fst r) = h_todo s.
  Proof.
    intros HT Hc Hfr Hn Hin.
    assert (Eb : tbound s t = mu s (h_pc s t)) by (unfold tbound; destruct Hin as [Hx _]; destruct (h_pc s t); try reflexivity; contradiction).
    destruct (solo_completes_q t _ s HT (calm_q _ _ Hc) Hfr Hn Hin (le_n _)) as [m [Hm Hf]]. cbv zeta in Hf.
    destruct Hf as [F1 [_ [F2 [F3 [F4 [F5 F6]]]]]].
    assert (Hoth : forall u, u <> t -> h_pc (fst (srun s (repeat t m))) u = h_pc s u).
    { intros u Hne. destruct (F5 u Hne) as [A _]. apply (pcq_not_waiting _ _ A). apply (Hc u Hne). }
    exists m. split; [rewrite Eb; exact Hm|]. cbv zeta. split; [exact F1|]. split; [exact F2|]. split; [exact F3|]. split.
    - intros u Hne. destruct (F4 u Hne) as [A [B C]]. split; [exact A|]. split; [exact B|]. split; [exact C|]. rewrite (Hoth u Hne). apply (Hc u Hne).
    - split; [|exact F6]. intros u Hne. split; [apply Hoth; exact Hne | apply (F5 u Hne)].
  Qed.


  (* ================ (T1) in general: Range visitors that call the map ================ *)

  (* the entries of the chains l, weighted: an entry of the i-th chain from the END counts 2 * i *)
  Fixpoint wsum (l : list (list mslot)) : nat :=
    match l with [] => 0 | c :: r => 2 * S (length r) * nkeys c + wsum r end.

  Lemma wsum_cmp (l : list (list mslot)) : forall l' bb d, length l' = length l ->
    (forall i, i <> bb -> nkeys (nth i l' []) <= nkeys (nth i l [])) -> nkeys (nth bb l' []) <= nkeys (nth bb l []) + d ->
    wsum l' <= wsum l + 2 * d * length l.
  Proof.
    induction l as [|c r IH]; intros [|c' r'] bb d Hl Ho Hb; try discriminate Hl; [cbn; lia|].
    cbn [wsum length]. injection Hl as Hl. rewrite Hl.
    destruct bb as [|bb].
    - cbn [nth] in Hb.
      assert (Ht : wsum r' <= wsum r + 2 * 0 * length r).
      { apply (IH r' (length r) 0 Hl); [intros i _; apply (Ho (S i)); discriminate|]. rewrite !nth_overflow by lia. lia. }
      nia.
    - pose proof (Ho 0 ltac:(discriminate)) as H0. cbn [nth] in H0.
      assert (Ht : wsum r' <= wsum r + 2 * d * length r) by (apply (IH r' bb d Hl); [intros i Hi; apply (Ho (S i)); lia | exact Hb]).
      nia.
  Qed.

  Lemma wsum_hk (l : list (list mslot)) : forall l', map (map haskey) l' = map (map haskey) l -> wsum l' = wsum l.
  Proof.
    induction l as [|c r IH]; intros [|c' r'] H; try discriminate H; [reflexivity|].
    cbn [map] in H. injection H as Hc Hr. cbn [wsum]. destruct (hk_chain c c' Hc) as [_ E]. rewrite E, (IH r' Hr).
    assert (Hl : length r' = length r) by (rewrite <- (map_length (map haskey) r'), Hr, map_length; reflexivity). rewrite Hl. reflexivity.
  Qed.

  Definition VPs (s : mstate) (tab b : nat) : nat := wsum (skipn b (m_chains (stab_at s tab))).
  Definition hkc (tb : mtable) : list (list bool) := map (map haskey) (m_chains tb).
  Definition chk (S0 s : mstate) (tab : nat) : Prop := hkc (stab_at S0 tab) = hkc (stab_at s tab).

  Lemma skipn_map_x {X Y} (f : X -> Y) l : forall n, skipn n (map f l) = map f (skipn n l).
  Proof. induction l as [|x r IH]; intros [|n]; cbn [skipn map]; auto. Qed.

  Lemma chk_acc S0 s tab : chk S0 s tab -> LEN S0 tab = LEN s tab /\ forall b, VPs S0 tab b = VPs s tab b.
  Proof.
    unfold chk, hkc, LEN, VPs, m_len. intros H. split.
    - rewrite <- (map_length (map haskey) (m_chains (stab_at S0 tab))), H, map_length. reflexivity.
    - intros b. apply wsum_hk. rewrite <- !skipn_map_x, H. reflexivity.
  Qed.

  Lemma VPs_step s tab b : b < LEN s tab ->
    VPs s tab b = 2 * (LEN s tab - b) * nkeys (schain_of (stab_at s tab) b) + VPs s tab (S b).
  Proof.
    unfold VPs, LEN, m_len, schain_of. generalize (m_chains (stab_at s tab)) as l. intros l. revert b.
    induction l as [|c r IH]; intros b Hb; [cbn in Hb; lia|].
    destruct b as [|b]; [cbn [skipn nth wsum length]; rewrite Nat.sub_0_r; reflexivity|].
    cbn [skipn nth length]. rewrite (IH b) by (cbn in Hb; lia). replace (S (length r) - S b) with (length r - b) by lia. reflexivity.
  Qed.

  Lemma VPs_end s tab b : LEN s tab <= b -> VPs s tab b = 0.
  Proof. intros H. unfold VPs. rewrite skipn_all2 by exact H. reflexivity. Qed.

  (* a nested call that may still insert its key *)
  Definition lkpre (lk : @lockk K V) : bool :=
    match lk with LKCompute _ => true | LKCopy _ kt _ => negb (kdone kt) | LKRange _ => false end.
  Fixpoint pre (p : spc) : bool :=
    match p with
    | QL_Table _ _ | QL_Top _ _ _ _ _ | QL_Val _ _ _ _ _ _ | QL_Key _ _ _ _ _ _ _ | QL_Val2 _ _ _ _ _ _ _ _ | QL_Next _ _ _ _ _ => true
    | QK_Load _ _ lk | QK_Spin _ _ lk | QK_CAS _ _ _ lk | QK_Yield _ _ lk => lkpre lk
    | QU_Load _ _ _ a | QU_Store _ _ _ _ a => pre a
    | QW_Table _ | QW_ChkRes _ _ | QW_ChkTab _ _ | QW_Scan _ _ _ _ _ | QW_D1 _ _ _ _ _ _ | QW_D2 _ _ _ _ _ | QW_D3 _ _ _ _ _
    | QW_U1 _ _ _ _ _ | QW_I0 _ _ _ _ | QW_I1 _ _ _ _ _ | QW_I2 _ _ _ _ | QW_I3 _ _ _ _ | QW_Sum _ _ _ _ | QW_N1 _ _ _ => true
    | QR_FastSum _ kt _ _ | QR_CAS _ kt | QR_Table _ kt | QR_ShSum kt _ _ _ | QR_Stat _ kt _ | QR_Publish kt _
    | QR_FinLock kt | QR_FinStore kt | QR_FinBcast kt | QR_FinUnlock kt => negb (kdone kt)
    | QT_Lock _ kt | QT_Load _ kt | QT_Wait _ kt | QT_Waiting _ kt | QT_Relock _ kt | QT_Unlock _ kt => negb (kdone kt)
    | _ => false
    end.

  (* where the Range goes on: the weight of one more entry of the buckets to come, and their entries *)
  Definition wa (s : mstate) (a : spc) : nat := match a with QK_Load tab b (LKRange _) => 2 * (LEN s tab - b) | _ => 0 end.
  Definition vpa (s : mstate) (a : spc) : nat := match a with QK_Load tab b (LKRange _) => VPs s tab b | _ => 0 end.
  Definition lkP (s : mstate) (tab b : nat) (lk : @lockk K V) : nat := match lk with LKRange _ => VPs s tab b | _ => 0 end.

  (* the visits a Range still owes, weighted *)
  Fixpoint Pr (s : mstate) (p : spc) : nat :=
    match p with
    | QG_Table _ => VPs s (h_cur s) 0
    | QK_Load tab b lk | QK_Spin tab b lk | QK_CAS tab b _ lk | QK_Yield tab b lk => lkP s tab b lk
    | QU_Load _ _ rg a | QU_Store _ _ _ rg a =>
        match rg with Some (snap, _) => length snap * (wa s a + 2) + vpa s a | None => Pr s a end
    | QA_Add _ _ _ a => Pr s a
    | _ => 0
    end.

  Definition fpart (s : mstate) (p : spc) (fo : option rframe) : nat :=
    match fo with
    | None => 0
    | Some f => length (rf_rest f) * (wa s (rf_after f) + 2) + vpa s (rf_after f) + (if pre p then wa s (rf_after f) else 0) + 1
    end.
  Definition PPat (s : mstate) (t : nat) (p : spc) : nat := Pr s p + fpart s p (h_frame s t).
  Definition PP (s : mstate) (t : nat) : nat := PPat s t (h_pc s t).

  Lemma Pr_ext S0 s : (forall tab b, VPs S0 tab b = VPs s tab b) -> (forall tab, LEN S0 tab = LEN s tab) -> h_cur S0 = h_cur s ->
    forall q, Pr S0 q = Pr s q.
  Proof.
    intros HV HL Hc.
    assert (Hw : forall a : spc, wa S0 a = wa s a) by (intros a; unfold wa; destruct a; try reflexivity; destruct lk; try reflexivity; rewrite HL; reflexivity).
    assert (Hp : forall a : spc, vpa S0 a = vpa s a) by (intros a; unfold vpa; destruct a; try reflexivity; destruct lk; try reflexivity; apply HV).
    induction q; cbn [Pr]; try reflexivity; try (destruct lk; cbn [lkP]; auto; fail); try (rewrite Hc; apply HV);
      try (destruct rg as [[sn vf]|]; [rewrite Hw, Hp; reflexivity | exact IHq]); try exact IHq.
  Qed.

  Lemma Pr_norm s (q : spc) : Pr s (snorm q) <= Pr s q.
  Proof. destruct q; cbn [snorm Pr]; lia. Qed.

  Lemma Pr_vpa s (a : spc) : fsimple a -> Pr s (snorm a) = vpa s a.
  Proof. destruct a; cbn [fsimple]; intros H; try contradiction; [reflexivity | destruct lk; try contradiction; reflexivity]. Qed.

  Lemma Pr_start s cx : Pr s (sstart_cx cx) = 0 /\ pre (sstart_cx cx) = true.
  Proof. unfold sstart_cx. destruct (sc_lie cx); split; reflexivity. Qed.

  (* the calls made by visitors of thread t, in a trace *)
  Definition nsub (t : nat) (l : list slabel) : nat :=
    length (filter (fun x : slabel => match x with SSubInv u _ => Nat.eqb u t | _ => false end) l).

  Lemma nsub_app t l1 l2 : nsub t (l1 ++ l2) = nsub t l1 + nsub t l2.
  Proof. unfold nsub. rewrite filter_app, app_length. reflexivity. Qed.

  Lemma svisits_out (S0 : mstate) t rest vf (a : spc) : forall l,
    (fst (svisits S0 t rest vf a l) = sset_pc (sset_frame S0 t None) t (snorm a) /\ nsub t (snd (svisits S0 t rest vf a l)) = nsub t l)
    \/ exists rest' cx, length rest' < length rest
         /\ fst (svisits S0 t rest vf a l) = sset_pc (sset_frame S0 t (Some {| rf_rest := rest'; rf_vf := vf; rf_after := a |})) t (sstart_cx cx)
         /\ nsub t (snd (svisits S0 t rest vf a l)) = nsub t l + 1.
  Proof.
    induction rest as [|[k v] r IH]; intros l; cbn [svisits].
    - left. destruct a; cbn [fst snd]; (split; [reflexivity|]); try reflexivity. rewrite nsub_app. cbn. lia.
    - destruct (vf k v) as [cx|].
      + right. exists r, cx. split; [cbn; lia|]. split; [reflexivity|]. cbn [snd]. rewrite nsub_app. unfold nsub at 2. cbn [filter]. rewrite Nat.eqb_refl. reflexivity.
      + assert (En : nsub t (l ++ [SVisit t k v]) = nsub t l) by (rewrite nsub_app; cbn; lia).
        destruct (IH (l ++ [SVisit t k v])) as [[E N0]|[rest' [cx [Hl [E N0]]]]]; [left; split; [exact E | rewrite N0; exact En]|].
        right. exists rest', cx. split; [cbn [length]; lia|]. split; [exact E | rewrite N0, En; reflexivity].
  Qed.

  Lemma PP_set_pc (S0 : mstate) t (q : spc) : PP (sset_pc S0 t q) t = Pr S0 q + fpart S0 q (h_frame S0 t).
  Proof.
    unfold PP, PPat. cbn [h_pc h_frame sset_pc]. destruct (Nat.eq_dec t t) as [_|Hx]; [|exfalso; apply Hx; reflexivity].
    rewrite (Pr_ext (sset_pc S0 t q) S0) by reflexivity. reflexivity.
  Qed.

  Lemma PP_after (S0 : mstate) t (a : spc) : fsimple a -> PP (sset_pc (sset_frame S0 t None) t (snorm a)) t = vpa S0 a.
  Proof.
    intros Ha. rewrite PP_set_pc. cbn [h_frame sset_frame]. destruct (Nat.eq_dec t t) as [_|Hx]; [|exfalso; apply Hx; reflexivity].
    cbn [fpart]. rewrite (Pr_ext (sset_frame S0 t None) S0) by reflexivity. rewrite (Pr_vpa S0 a Ha). lia.
  Qed.

  Lemma PP_nested (S0 : mstate) t rest' vf (a : spc) cx :
    PP (sset_pc (sset_frame S0 t (Some {| rf_rest := rest'; rf_vf := vf; rf_after := a |})) t (sstart_cx cx)) t
    = length rest' * (wa S0 a + 2) + vpa S0 a + wa S0 a + 1.
  Proof.
    rewrite PP_set_pc. cbn [h_frame sset_frame]. destruct (Nat.eq_dec t t) as [_|Hx]; [|exfalso; apply Hx; reflexivity].
    destruct (Pr_start (sset_frame S0 t (Some {| rf_rest := rest'; rf_vf := vf; rf_after := a |})) cx) as [-> E].
    cbn [fpart rf_rest rf_after]. rewrite E. reflexivity.
  Qed.

  (* after the visits: what is owed is at most the entries that were left, and less if a nested call has begun *)
  Lemma svisits_PP (S0 : mstate) t rest vf (a : spc) l : fsimple a ->
    let s' := fst (svisits S0 t rest vf a l) in
    PP s' t <= length rest * (wa S0 a + 2) + vpa S0 a
    /\ (h_frame s' t <> None -> PP s' t + 1 <= length rest * (wa S0 a + 2) + vpa S0 a)
    /\ nsub t (snd (svisits S0 t rest vf a l)) + PP s' t <= nsub t l + length rest * (wa S0 a + 2) + vpa S0 a.
  Proof.
    intros Ha. cbv zeta. destruct (svisits_out S0 t rest vf a l) as [[E N0]|[rest' [cx [Hl [E N0]]]]]; rewrite E, N0.
    - rewrite (PP_after S0 t a Ha). split; [lia|]. split; [|lia]. intros H. exfalso. apply H.
      cbn [h_frame sset_pc sset_frame]. destruct (Nat.eq_dec t t) as [_|Hx]; [reflexivity | exfalso; apply Hx; reflexivity].
    - rewrite PP_nested. split; [nia|]. split; [intros _; nia | nia].
  Qed.

  Lemma q_cases (q : spc) : (exists r, q = QRet r) \/ (forall r, q <> QRet r).
  Proof. destruct q; try (right; discriminate). left. eauto. Qed.

  Lemma goto_P s (S0 : mstate) t (p q : spc) l0 :
    (forall f, h_frame s t = Some f -> fsimple (rf_after f)) ->
    h_frame S0 t = h_frame s t ->
    nsub t l0 = 0 ->
    Pr S0 (snorm q) <= Pr s p ->
    (pre q = true -> pre p = true) ->
    (forall f, h_frame s t = Some f ->
       wa S0 (rf_after f) = wa s (rf_after f)
       /\ vpa S0 (rf_after f) <= vpa s (rf_after f) + (if pre p && negb (pre q) then wa s (rf_after f) else 0)) ->
    let s' := fst (sgoto S0 t q l0) in
    PP s' t <= PPat s t p /\ (h_frame s' t <> h_frame s t -> PP s' t < PPat s t p)
    /\ nsub t (snd (sgoto S0 t q l0)) + PP s' t <= PPat s t p.
  Proof.
    intros HF Hfr Hn0 H1 H2 H3. cbv zeta. unfold PPat. destruct (q_cases q) as [[r ->]|Hq].
    - cbn [sgoto]. cbn [snorm Pr] in H1. rewrite Hfr. destruct (h_frame s t) as [f|] eqn:Ef.
      + destruct (H3 f eq_refl) as [W Vp]. cbn [pre negb] in Vp. rewrite andb_true_r in Vp.
        destruct (svisits_PP S0 t (rf_rest f) (rf_vf f) (rf_after f) (l0 ++ [SSubRes t r]) (HF f eq_refl)) as [A [_ C]]. cbv zeta in A, C.
        assert (En : nsub t (l0 ++ [SSubRes t r]) = 0) by (rewrite nsub_app, Hn0; reflexivity). rewrite En in C.
        cbn [fpart]. rewrite W in A, C. destruct (pre p); (split; [|split]); try intros _; lia.
      + cbn [fst snd]. rewrite PP_set_pc. cbn [Pr fpart]. rewrite Hfr. cbn [fpart]. split; [lia|]. split.
        * intros H. exfalso. apply H. cbn [h_frame sset_pc]. exact Hfr.
        * rewrite nsub_app, Hn0. cbn. lia.
    - assert (Eg : sgoto S0 t q l0 = (sset_pc S0 t q, l0)) by (destruct q; try reflexivity; exfalso; eapply Hq; reflexivity).
      rewrite Eg. cbn [fst snd]. rewrite PP_set_pc, Hn0.
      assert (En : snorm q = q) by (destruct q; try reflexivity; exfalso; eapply Hq; reflexivity). rewrite En in H1.
      assert (Hle : Pr S0 q + fpart S0 q (h_frame S0 t) <= Pr s p + fpart s p (h_frame s t)).
      { rewrite Hfr. destruct (h_frame s t) as [f|] eqn:Ef; cbn [fpart]; [|lia].
        destruct (H3 f eq_refl) as [W Vp]. rewrite W. destruct (pre q) eqn:Eq.
        * rewrite (H2 eq_refl) in *. cbn [negb andb] in Vp. lia.
        * cbn [negb] in Vp. rewrite andb_true_r in Vp. destruct (pre p); lia. }
      split; [exact Hle|]. split; [|lia].
      intros H. exfalso. apply H. cbn [h_frame sset_pc]. exact Hfr.
  Qed.

  (* ---------------- what a step does to the entries the Range has not seen yet ---------------- *)

  Lemma chk_same (S0 s : mstate) tab : h_tabs S0 = h_tabs s -> chk S0 s tab.
  Proof. intros H. unfold chk, XMachineS.stab_at. rewrite H. reflexivity. Qed.

  Lemma chk_tabs (S0 s : mstate) i f tab : h_tabs S0 = supd_nth (h_tabs s) i f -> (forall tb, hkc (f tb) = hkc tb) -> chk S0 s tab.
  Proof.
    intros H Hf. unfold chk, XMachineS.stab_at. rewrite H, nth_supd_nth.
    destruct (Nat.eq_dec tab i) as [->|]; [|reflexivity]. destruct (Nat.ltb i (length (h_tabs s))) eqn:E; [apply Hf|].
    apply Nat.ltb_ge in E. rewrite (nth_overflow _ _ E). reflexivity.
  Qed.

  Lemma chk_push (S0 s : mstate) tb tab : h_tabs S0 = h_tabs s ++ [tb] -> tab < length (h_tabs s) -> chk S0 s tab.
  Proof. intros H Hl. unfold chk, XMachineS.stab_at. rewrite H, app_nth1 by exact Hl. reflexivity. Qed.

  Lemma chk_trans (S1 S0 s : mstate) tab : chk S1 S0 tab -> chk S0 s tab -> chk S1 s tab.
  Proof. unfold chk. congruence. Qed.

  Lemma hkc_set_slot (tb : mtable) b pos g : (forall sl, haskey (g sl) = haskey sl) -> hkc (sset_slot tb b pos g) = hkc tb.
  Proof. intros Hg. unfold hkc, sset_slot, sset_chain. cbn [m_chains]. apply map_supd_same. intros c. apply map_supd_same. exact Hg. Qed.

  (* at most one chain has one more key *)
  Definition ins1 (tb' tb : mtable) : Prop :=
    length (m_chains tb') = length (m_chains tb)
    /\ exists bb, (forall i, i <> bb -> nkeys (nth i (m_chains tb') []) <= nkeys (nth i (m_chains tb) []))
                  /\ nkeys (nth bb (m_chains tb') []) <= nkeys (nth bb (m_chains tb) []) + 1.

  Lemma ins1_refl (tb : mtable) : ins1 tb tb.
  Proof. split; [reflexivity|]. exists 0. split; intros; lia. Qed.

  Lemma ins1_set_chain (tb : mtable) b g : (forall c, nkeys (g c) <= nkeys c + 1) -> ins1 (sset_chain tb b g) tb.
  Proof.
    intros Hg. unfold ins1, sset_chain. cbn [m_chains]. split; [apply supd_len|]. exists b. split.
    - intros i Hi. rewrite nth_supd_nth. destruct (Nat.eq_dec i b); [contradiction | lia].
    - rewrite nth_supd_nth. destruct (Nat.eq_dec b b) as [_|Hx]; [|exfalso; apply Hx; reflexivity].
      destruct (Nat.ltb b (length (m_chains tb))) eqn:E; [apply Hg|]. apply Nat.ltb_ge in E. rewrite (nth_overflow _ _ E). unfold nkeys. cbn. lia.
  Qed.

  Lemma nkeys_supd_le (c : list mslot) pos g : nkeys (supd_nth c pos g) <= nkeys c + 1.
  Proof.
    revert pos. induction c as [|sl r IH]; intros pos; [destruct pos; cbn; lia|].
    destruct pos as [|pos]; cbn [supd_nth]; unfold nkeys in *; cbn [filter].
    - destruct (haskey (g sl)), (haskey sl); cbn [length]; lia.
    - specialize (IH pos). destruct (haskey sl); cbn [length]; lia.
  Qed.

  Lemma nth_skipn_x {X} (l : list X) d : forall m j, nth j (skipn m l) d = nth (m + j) l d.
  Proof. induction l as [|x r IH]; intros [|m] j; cbn [skipn Nat.add]; try reflexivity; [destruct j; reflexivity | apply IH]. Qed.

  Lemma ins1_VP (tb' tb : mtable) b : ins1 tb' tb ->
    wsum (skipn b (m_chains tb')) <= wsum (skipn b (m_chains tb)) + 2 * (length (m_chains tb) - b).
  Proof.
    intros [Hl [bb [Ho Hb]]].
    assert (Hs : length (skipn b (m_chains tb')) = length (skipn b (m_chains tb))) by (rewrite !skipn_length, Hl; reflexivity).
    destruct (Nat.le_gt_cases b bb) as [L|L].
    - pose proof (wsum_cmp (skipn b (m_chains tb)) (skipn b (m_chains tb')) (bb - b) 1 Hs) as W. rewrite skipn_length in W.
      assert (W' : wsum (skipn b (m_chains tb')) <= wsum (skipn b (m_chains tb)) + 2 * 1 * (length (m_chains tb) - b)); [|lia].
      apply W.
      + intros i Hi. rewrite !nth_skipn_x. apply Ho. lia.
      + rewrite !nth_skipn_x. replace (b + (bb - b)) with bb by lia. exact Hb.
    - pose proof (wsum_cmp (skipn b (m_chains tb)) (skipn b (m_chains tb')) (length (m_chains tb)) 0 Hs) as W.
      assert (W' : wsum (skipn b (m_chains tb')) <= wsum (skipn b (m_chains tb)) + 2 * 0 * length (skipn b (m_chains tb))); [|lia].
      apply W.
      + intros i Hi. rewrite !nth_skipn_x. apply Ho. lia.
      + rewrite !nth_skipn_x, !nth_overflow by lia. lia.
  Qed.

  Lemma ins_tabs (S0 s : mstate) i f : h_tabs S0 = supd_nth (h_tabs s) i f -> (forall tb, ins1 (f tb) tb) ->
    forall tab, ins1 (stab_at S0 tab) (stab_at s tab).
  Proof.
    intros H Hf tab. unfold XMachineS.stab_at. rewrite H, nth_supd_nth.
    destruct (Nat.eq_dec tab i) as [->|]; [|apply ins1_refl]. destruct (Nat.ltb i (length (h_tabs s))) eqn:E; [apply Hf|].
    apply Nat.ltb_ge in E. rewrite (nth_overflow _ _ E). apply ins1_refl.
  Qed.

  Lemma slive_le (c : list mslot) : length (slive_pairs c) <= nkeys c.
  Proof.
    unfold slive_pairs, nkeys. induction c as [|sl r IH]; [cbn; lia|]. cbn [flat_map filter]. rewrite app_length.
    unfold haskey at 1. destruct (ms_key sl); [destruct (ms_val sl) as [[v id]|]; cbn [length]; lia | cbn [length]; lia].
  Qed.

  (* the frame of the Range keeps its claim: nothing it still has to visit changed ... *)
  Lemma H3_keep s (S0 : mstate) t (p q : spc) :
    (forall tab, tab <= h_cur s -> chk S0 s tab) ->
    (forall f, h_frame s t = Some f -> tabs_le (h_cur s) (rf_after f)) ->
    forall f, h_frame s t = Some f ->
      wa S0 (rf_after f) = wa s (rf_after f)
      /\ vpa S0 (rf_after f) <= vpa s (rf_after f) + (if pre p && negb (pre q) then wa s (rf_after f) else 0).
  Proof.
    intros Hc Hle f Ef. specialize (Hle f Ef). unfold wa, vpa. destruct (rf_after f); try (split; [reflexivity | lia]).
    destruct lk; try (split; [reflexivity | lia]). cbn [tabs_le] in Hle. destruct (chk_acc S0 s tab (Hc tab Hle)) as [A B].
    rewrite A, B. split; [reflexivity | lia].
  Qed.

  (* ... or the nested call has just stored its key (or cleared one) and can do so no more *)
  Lemma H3_ins s (S0 : mstate) t (p q : spc) :
    pre p = true -> pre q = false ->
    (forall tab, ins1 (stab_at S0 tab) (stab_at s tab)) ->
    forall f, h_frame s t = Some f ->
      wa S0 (rf_after f) = wa s (rf_after f)
      /\ vpa S0 (rf_after f) <= vpa s (rf_after f) + (if pre p && negb (pre q) then wa s (rf_after f) else 0).
  Proof.
    intros -> -> Hi f Ef. cbn [negb andb]. unfold wa, vpa. destruct (rf_after f); try (split; [reflexivity | lia]).
    destruct lk; try (split; [reflexivity | lia]). pose proof (Hi tab) as Ht. pose proof (ins1_VP _ _ b Ht) as Hv. destruct Ht as [Hl _].
    unfold LEN, VPs, m_len. rewrite Hl. split; [reflexivity | lia].
  Qed.

  Lemma Pr_keep (S0 s : mstate) (q : spc) : (forall tab, chk S0 s tab) -> h_cur S0 = h_cur s -> Pr S0 q = Pr s q.
  Proof. intros Hc Hcur. apply Pr_ext; [intros tab b; apply (proj2 (chk_acc S0 s tab (Hc tab))) | intros tab; apply (proj1 (chk_acc S0 s tab (Hc tab))) | exact Hcur]. Qed.

  Lemma ins1_words (tb' tb : mtable) b h : ins1 tb' tb -> ins1 (sset_words tb' b h) tb.
  Proof. intros H. exact H. Qed.

  Lemma nkeys_app_cell (c : list mslot) cell n : nkeys (c ++ cell :: repeat empty_mslot n) <= nkeys c + 1.
  Proof.
    pose proof (nkeys_empty n) as E0. unfold nkeys in *. rewrite filter_app, app_length. cbn [filter]. destruct (haskey cell); cbn [length]; rewrite E0; lia.
  Qed.

  Ltac pq_cases :=
    repeat match goal with
           | |- context [srun_cont ?kt] => is_var kt; destruct kt
           | |- context [kdone ?kt] => is_var kt; destruct kt
           | |- context [if ?c then _ else _] => destruct c
           | |- context [match ?hn with Some _ => _ | None => _ end] => is_var hn; destruct hn as [[]|]
           | |- context [match ?lc with SLPlain => _ | SLFast _ => _ end] => is_var lc; destruct lc
           end.

  Ltac H1T := try solve [ cbn [Pr snorm lkP]; lia | pq_cases; cbn [Pr snorm lkP srun_cont]; lia ].
  Ltac H2T := try solve [ cbn [pre lkpre]; auto | pq_cases; cbn [pre lkpre srun_cont kdone negb]; auto; intros; congruence ].
  Ltac chkT :=
    first [ apply chk_same; reflexivity
          | eapply chk_tabs; [reflexivity | intros; first [reflexivity | apply hkc_set_slot; intros; reflexivity]]
          | eapply chk_push; [reflexivity | lia] ].
  Ltac insT :=
    eapply ins_tabs; [reflexivity | intros tb0; unfold sset_slot; try apply ins1_words; apply ins1_set_chain; intros c0;
                                     first [apply nkeys_supd_le | apply nkeys_app_cell]].
  Ltac H3T HFle :=
    try solve [ apply (H3_keep _ _ _ _ _); [intros tab0 Htab0; chkT | exact HFle]
              | apply (H3_ins _ _ _ _ _); [reflexivity | reflexivity | intros tab0; insT] ].

  Lemma P_step s t p s' ls : TI s -> h_pc s t = p -> sstep_pc s t p = Some (s', ls) ->
    PP s' t <= PPat s t p /\ (h_frame s' t <> h_frame s t -> PP s' t < PPat s t p) /\ nsub t ls + PP s' t <= PPat s t p.
  Proof.
    intros HT Hp Hs. pose proof HT as [[HI [HL [HTt [HP HCS]]]] [[HSV _] [HXF [HXC HK]]]].
    pose proof (rk_pc s HK t) as Hrk. rewrite Hp in Hrk.
    pose proof (xl_pc _ _ _ _ s HL t) as Hv. rewrite Hp in Hv.
    pose proof (xc_pc _ _ _ _ s HXC t) as Hcp. rewrite Hp in Hcp.
    destruct (xt_pc s HTt t) as [Hle Hnew]. rewrite Hp in Hle, Hnew.
    pose proof (xt_cur s HTt) as Hcur.
    assert (HF : forall f, h_frame s t = Some f -> fsimple (rf_after f)) by (intros f E; apply (xc_fr _ _ _ _ s HXC t f E)).
    assert (HFle : forall f, h_frame s t = Some f -> tabs_le (h_cur s) (rf_after f)) by (intros f E; apply (xt_fr s HTt t f E)).
    destruct p; try (destruct lk); cbn [XMachineS.sstep_pc after_lock] in Hs; cbv zeta in Hs; unfold sfnev in Hs;
      repeat match type of Hs with context [match ?x with _ => _ end] => destruct x eqn:? end;
      try discriminate Hs; apply some_pair_s in Hs; destruct Hs as [-> ->]; cbn [PCI rk_ok CPT tabs_le snewtab] in Hv, Hrk, Hcp, Hle, Hnew.
    all: try match goal with
             | |- context [sgoto ?S0 ?T ?q ?l0] =>
                 apply (goto_P s S0 T _ q l0 HF eq_refl); [ try reflexivity | H1T | H2T | H3T HFle ]
             end.
    - (* QStart *)
      cbn [fst snd]. rewrite PP_set_pc. unfold PPat. cbn [Pr h_frame]. split; [|split].
      + destruct (h_frame s t); cbn [fpart pre]; lia.
      + intros H. exfalso. apply H. reflexivity.
      + destruct (h_frame s t); cbn [fpart pre nsub filter length]; lia.
    - (* the copy of a bucket: into the unpublished table *)
      match type of Heqp with (let '(_, _) := ?X in _) = _ => destruct X as [nt cp] end. inversion Heqp; subst m s0. clear Heqp.
      destruct (Hnew new eq_refl) as [_ Hlt].
      match goal with |- context [sgoto ?S0 ?T ?q ?l0] => apply (goto_P s S0 T _ q l0 HF eq_refl) end.
      + reflexivity.
      + destruct (Nat.ltb _ _); cbn [Pr snorm lkP]; lia.
      + destruct (Nat.ltb _ _); cbn [pre lkpre]; auto.
      + apply (H3_keep _ _ _ _ _); [|exact HFle]. intros tab0 Htab0.
        match goal with |- chk (sset_tab ?S1 _ _) _ _ => apply (chk_trans _ S1); [|eapply chk_tabs; [reflexivity | intros; reflexivity]] end.
        unfold chk, XMachineS.stab_at, sset_tab. cbn [h_tabs]. rewrite nth_supd_nth. destruct (Nat.eq_dec tab0 new); [lia | reflexivity].
    - (* lockBucket of the Range: the entries of the bucket are copied *)
      destruct Hv as [[Hv0 Hvb] _]. match goal with H : Nat.ltb (S b) _ = true |- _ => apply Nat.ltb_lt in H; rename H into Hlb end.
      match goal with |- context [sset_tab s tab ?f] => set (S1 := sset_tab s tab f) end.
      assert (Ck : chk S1 s tab) by (eapply chk_tabs; [reflexivity | intros; reflexivity]).
      destruct (chk_acc S1 s tab Ck) as [CL CV].
      assert (Ec : schain_of (stab_at S1 tab) b = schain_of (stab_at s tab) b).
      { unfold S1. rewrite stab_set_word. destruct (Nat.eq_dec tab tab) as [_|Hx]; [|exfalso; apply Hx; reflexivity]. destruct (Nat.ltb _ _); reflexivity. }
      cbn [snorm Pr lkP wa vpa]. rewrite Ec, CL, CV. pose proof (slive_le (schain_of (stab_at s tab) b)) as Hsl.
      change (tabT (h_tabs s) tab) with (stab_at s tab) in Hvb. fold (LEN s tab) in Hvb.
      rewrite (VPs_step s tab b Hvb). nia.
    - destruct Hv as [[Hv0 Hvb] _]. match goal with H : Nat.ltb (S b) _ = false |- _ => apply Nat.ltb_ge in H; rename H into Hlb end.
      match goal with |- context [sset_tab s tab ?f] => set (S1 := sset_tab s tab f) end.
      assert (Ec : schain_of (stab_at S1 tab) b = schain_of (stab_at s tab) b).
      { unfold S1. rewrite stab_set_word. destruct (Nat.eq_dec tab tab) as [_|Hx]; [|exfalso; apply Hx; reflexivity]. destruct (Nat.ltb _ _); reflexivity. }
      cbn [snorm Pr lkP wa vpa]. rewrite Ec. pose proof (slive_le (schain_of (stab_at s tab) b)) as Hsl.
      change (tabT (h_tabs s) tab) with (stab_at s tab) in Hvb. fold (LEN s tab) in Hvb.
      rewrite (VPs_step s tab b Hvb). nia.
    - (* unlockBucket of the Range: the visits *)
      match goal with |- context [svisits ?S0 ?T ?sn ?vf ?a ?l0] =>
        assert (Ck : forall tab0, chk S0 s tab0) by (intros tab0; eapply chk_tabs; [reflexivity | intros; reflexivity]);
        destruct (svisits_PP S0 T sn vf a l0 (proj1 Hcp ltac:(discriminate))) as [A [B C]]; cbv zeta in A, B, C;
        set (S1 := S0) in * end.
      unfold PPat. cbn [Pr]. cbn [nsub filter length] in C.
      assert (Ew : wa S1 p = wa s p /\ vpa S1 p = vpa s p).
      { unfold wa, vpa. destruct p; try (split; reflexivity). destruct lk; try (split; reflexivity).
        destruct (chk_acc S1 s tab0 (Ck tab0)) as [C1 C2]. rewrite C1, C2. split; reflexivity. }
      destruct Ew as [Ew Ev]. rewrite Ew, Ev in A, B, C.
      split; [lia|]. split; [|lia]. intros Hne. destruct (h_frame s t) as [f|] eqn:Ef; [cbn [fpart]; lia|].
      specialize (B Hne). cbn [fpart]. lia.
    - (* unlockBucket *)
      etransitivity; [apply Pr_norm|]. cbn [Pr]. rewrite (Pr_keep _ s); [lia | intros tab0; eapply chk_tabs; [reflexivity | intros; reflexivity] | reflexivity].
    - (* addSize *)
      etransitivity; [apply Pr_norm|]. cbn [Pr]. rewrite (Pr_keep _ s); [lia | intros tab0; eapply chk_tabs; [reflexivity | intros; reflexivity] | reflexivity].
    - destruct Hrk as [Hk1 Hk2]. destruct p; try contradiction; cbn [pre rk_ok] in *; [discriminate|]. rewrite Hk2. discriminate.
  Qed.

  (* the unlock before the visits of a Range: when a visitor calls the map, one visit less is owed *)
  Lemma P_store s t tab b w snap vf (a : spc) s' ls : TI s -> h_pc s t = QU_Store tab b w (Some (snap, vf)) a ->
    sstep_pc s t (QU_Store tab b w (Some (snap, vf)) a) = Some (s', ls) -> h_frame s' t <> None ->
    PP s' t < PPat s t (QU_Store tab b w (Some (snap, vf)) a).
  Proof.
    intros HT Hp Hs Hne. pose proof HT as [_ [_ [_ [HXC _]]]].
    pose proof (xc_pc _ _ _ _ s HXC t) as Hcp. rewrite Hp in Hcp. cbn [CPT] in Hcp.
    cbn [XMachineS.sstep_pc] in Hs. cbv zeta in Hs. apply some_fst_s in Hs. subst s'.
    match goal with |- context [svisits ?S0 ?T ?sn ?f ?a0 ?l0] =>
      assert (Ck : forall tab0, chk S0 s tab0) by (intros tab0; eapply chk_tabs; [reflexivity | intros; reflexivity]);
      destruct (svisits_PP S0 T sn f a0 l0 (proj1 Hcp ltac:(discriminate))) as [A [B _]]; cbv zeta in A, B;
      set (S1 := S0) in * end.
    unfold PPat. cbn [Pr].
    assert (Ew : wa S1 a = wa s a /\ vpa S1 a = vpa s a).
    { unfold wa, vpa. destruct a; try (split; reflexivity). destruct lk; try (split; reflexivity).
      destruct (chk_acc S1 s tab0 (Ck tab0)) as [C1 C2]. rewrite C1, C2. split; reflexivity. }
    destruct Ew as [Ew Ev]. rewrite Ew, Ev in B. specialize (B Hne). lia.
  Qed.

  (* ---------------- the lexicographic measure: (visits owed, steps of the current call) ---------------- *)

  Lemma lex_step s t p s' ls : TI s -> qcalm s t -> h_pc s t = p -> sstep_pc s t p = Some (s', ls) ->
    PP s' t < PP s t \/ (PP s' t <= PP s t /\ mu s' (h_pc s' t) < mu s p).
  Proof.
    intros HT Hc Hp Hs. destruct (P_step s t p s' ls HT Hp Hs) as [A [B _]].
    assert (Ep : PP s t = PPat s t p) by (unfold PP; rewrite Hp; reflexivity). rewrite Ep.
    assert (Hgen : ncbS p -> PP s' t < PPat s t p \/ (PP s' t <= PPat s t p /\ mu s' (h_pc s' t) < mu s p)).
    { intros Hn. destruct (mu_step_gen s t p s' ls HT Hc Hn Hp Hs) as [H|H]; [left; apply B; exact H | right; split; assumption]. }
    destruct p; try (apply Hgen; exact I).
    destruct rg as [[snap vf]|]; [|apply Hgen; exact I].
    (* the unlock before the visits of a Range whose visitor may call the map *)
    pose proof HT as [_ [_ [_ [_ HK]]]].
    pose proof (rk_pc s HK t) as Hrk. rewrite Hp in Hrk. cbn [rk_ok] in Hrk.
    pose proof Hs as Hs0. cbn [XMachineS.sstep_pc] in Hs. cbv zeta in Hs. apply some_fst_s in Hs.
    match type of Hs with _ = fst (svisits ?S0 ?T ?sn ?f ?a ?l0) => destruct (svisits_out S0 T sn f a l0) as [[E _]|[rest' [cx [Hl [E _]]]]]; rewrite E in Hs end.
    - right. split; [exact A|]. subst s'. cbn [h_pc sset_pc]. destruct (Nat.eq_dec t t) as [_|Hx]; [|exfalso; apply Hx; reflexivity].
      rewrite mu_set_pc, mu_set_frame.
      rewrite (mu_view s) by (first [view_solve | apply uf_norm; apply contok_uf; tauto]).
      cbn [mu]. pose proof (mu_norm s p). lia.
    - left. apply (P_store s t tab b v snap vf p s' ls HT Hp Hs0). subst s'. cbn [h_frame sset_pc sset_frame].
      destruct (Nat.eq_dec t t) as [_|Hx]; [discriminate | exfalso; apply Hx; reflexivity].
  Qed.

  (* ---------------- a call that ends emits its result (frames and visitors of any kind) ---------------- *)

  Lemma visits_ret_g (S0 : mstate) t snap vf (a : spc) : live a -> forall l0,
    h_pc (fst (svisits S0 t snap vf a l0)) t <> QStart
    /\ (h_pc (fst (svisits S0 t snap vf a l0)) t = QIdle -> exists r, In (SRes t r) (snd (svisits S0 t snap vf a l0))).
  Proof.
    intros Ha. induction snap as [|[k v] r IH]; intros l0; cbn [svisits].
    - destruct a; cbn [fst snd sset_pc h_pc]; (destruct (Nat.eq_dec t t) as [_|Hx]; [|exfalso; apply Hx; reflexivity]);
        try (exfalso; exact Ha); try (split; [discriminate | intros E; discriminate E]).
      split; [discriminate|]. intros _. exists r. apply in_or_app. right. left. reflexivity.
    - destruct (vf k v) as [cx|]; [|apply IH]. cbn [fst sset_pc h_pc]. destruct (Nat.eq_dec t t) as [_|Hx]; [|exfalso; apply Hx; reflexivity].
      unfold sstart_cx. destruct (sc_lie cx); (split; [discriminate | intros E; discriminate E]).
  Qed.

  Lemma goto_ret_g (S0 : mstate) t (q : spc) l0 : (forall f, h_frame S0 t = Some f -> live (rf_after f)) -> live q ->
    h_pc (fst (sgoto S0 t q l0)) t <> QStart
    /\ (h_pc (fst (sgoto S0 t q l0)) t = QIdle -> exists r, In (SRes t r) (snd (sgoto S0 t q l0))).
  Proof.
    intros HF Hq. destruct q; cbn [sgoto fst snd sset_pc h_pc]; try (destruct (Nat.eq_dec t t) as [_|Hx]; [|exfalso; apply Hx; reflexivity]);
      try (exfalso; exact Hq); try (split; [discriminate | intros E; discriminate E]).
    destruct (h_frame S0 t) as [f|] eqn:Ef; [apply visits_ret_g; apply (HF f eq_refl)|].
    cbn [fst snd sset_pc h_pc]. destruct (Nat.eq_dec t t) as [_|Hx]; [|exfalso; apply Hx; reflexivity].
    split; [discriminate|]. intros _. exists r. apply in_or_app. right. left. reflexivity.
  Qed.

  Lemma live_cont kt : live (@srun_cont K V kt).
  Proof. destruct kt; exact I. Qed.

  Lemma step_ret_g s t p s' ls : TI s -> h_pc s t = p -> sstep_pc s t p = Some (s', ls) ->
    h_pc s' t <> QStart /\ (h_pc s' t = QIdle -> p = QStart \/ exists r, In (SRes t r) ls).
  Proof.
    intros HT Hp Hs. pose proof HT as [_ [_ [HXF _]]].
    pose proof (xf_pc s HXF t) as Hcl. rewrite Hp in Hcl.
    assert (HF : forall f, h_frame s t = Some f -> live (rf_after f)) by (intros f E; apply (xf_fr s HXF t f E)).
    destruct p; try (destruct lk); cbn [XMachineS.sstep_pc after_lock] in Hs; cbv zeta in Hs; unfold sfnev in Hs;
      repeat match type of Hs with context [match ?x with _ => _ end] => destruct x eqn:? end;
      try discriminate Hs; apply some_pair_s in Hs; destruct Hs as [-> ->]; cbn [clive] in Hcl.
    all: try match goal with |- context [sgoto ?S0 ?T ?q ?l0] =>
           destruct (goto_ret_g S0 T q l0 HF) as [G1 G2]; [|split; [exact G1 | intros E; right; apply G2; exact E]] end.
    all: try match goal with |- context [svisits ?S0 ?T ?sn ?vf ?q ?l0] =>
           destruct (visits_ret_g S0 T sn vf q (proj1 Hcl) l0) as [G1 G2]; split; [exact G1 | intros E; right; apply G2; exact E] end.
    all: try exact I.
    all: try (pq_cases; exact I).
    all: try tauto.
    - cbn [fst snd sset_pc h_pc]. destruct (Nat.eq_dec t t) as [_|Hx]; [|exfalso; apply Hx; reflexivity]. split; [discriminate | auto].
    - match type of Heqp with (let '(_, _) := ?X in _) = _ => destruct X as [nt cp] end. inversion Heqp; subst m s0.
      match goal with |- context [sgoto ?S0 ?T ?q ?l0] =>
        destruct (goto_ret_g S0 T q l0 HF) as [G1 G2]; [exact I | split; [exact G1 | intros E; right; apply G2; exact E]] end.
  Qed.

  (* ---------------- (T1) in general: solo completion, nested calls included ---------------- *)

  Theorem solo_completes_g t : forall N M s, TI s -> qcalm s t -> h_pc s t <> QIdle -> PP s t <= N -> mu s (h_pc s t) <= M ->
    exists m,
      let r := srun s (repeat t m) in
      h_pc (fst r) t = QIdle /\ (h_pc s t <> QStart -> exists res, In (SRes t res) (snd r))
      /\ TI (fst r) /\ qcalm (fst r) t
      /\ (forall u, u <> t -> pcq (h_pc s u) (h_pc (fst r) u) /\ h_frame (fst r) u = h_frame s u) /\ h_todo (fst r) = h_todo s
      /\ nsub t (snd r) <= PP s t.
  Proof.
    induction N as [N IHN] using lt_wf_ind. induction M as [M IHM] using lt_wf_ind. intros s HT Hc Hni HN HM.
    destruct (sstep_pc s t (h_pc s t)) as [[s1 ls1]|] eqn:E; [|exfalso; apply (calm_enabled s t HT Hc Hni E)].
    assert (Ex : sstep s t = Some (s1, ls1)) by (rewrite (sstep_of_pc s t Hni); exact E).
    pose proof (TI_sstep s t s1 ls1 HT Ex) as HT1.
    destruct (qcalm_step s t _ s1 ls1 HT Hc eq_refl E) as [Ho [Hc1 [Htd Hfo]]].
    destruct (P_step s t _ s1 ls1 HT eq_refl E) as [_ [_ Hsub]]. fold (PP s t) in Hsub.
    destruct (pc_eq_idle (h_pc s1 t)) as [Ei|Ei].
    - exists 1. cbv zeta. rewrite (srun_repeat_S s t 0 s1 ls1 Ex). cbn [repeat XMachineS.srun fst snd]. rewrite app_nil_r.
      split; [exact Ei|]. split; [intros Hns; destruct (proj2 (step_ret_g s t _ s1 ls1 HT eq_refl E) Ei) as [F|F]; [contradiction | exact F]|].
      split; [exact HT1|]. split; [exact Hc1|]. split; [intros u Hne; split; [apply Ho | apply Hfo]; exact Hne|]. split; [exact Htd | lia].
    - assert (Hrec : exists m, let r := srun s1 (repeat t m) in
                h_pc (fst r) t = QIdle /\ (h_pc s1 t <> QStart -> exists res, In (SRes t res) (snd r))
                /\ TI (fst r) /\ qcalm (fst r) t
                /\ (forall u, u <> t -> pcq (h_pc s1 u) (h_pc (fst r) u) /\ h_frame (fst r) u = h_frame s1 u) /\ h_todo (fst r) = h_todo s1
                /\ nsub t (snd r) <= PP s1 t).
      { destruct (lex_step s t _ s1 ls1 HT Hc eq_refl E) as [Hlt|[Hle Hmu]].
        - apply (IHN (PP s1 t) ltac:(lia) (mu s1 (h_pc s1 t)) s1 HT1 Hc1 Ei (le_n _) (le_n _)).
        - apply (IHM (mu s1 (h_pc s1 t)) ltac:(lia) s1 HT1 Hc1 Ei ltac:(lia) (le_n _)). }
      destruct Hrec as [m Hfin]. cbv zeta in Hfin. destruct Hfin as [F1 [F2 [F3 [F4 [F5 [F6 F7]]]]]].
      exists (S m). cbv zeta. rewrite (srun_repeat_S s t m s1 ls1 Ex). cbn [fst snd].
      split; [exact F1|]. split.
      + intros Hns. destruct (F2 (proj1 (step_ret_g s t _ s1 ls1 HT eq_refl E))) as [res Hr]. exists res. apply in_or_app. right. exact Hr.
      + split; [exact F3|]. split; [exact F4|]. split; [|split; [rewrite F6; exact Htd | rewrite nsub_app; lia]].
        intros u Hne. destruct (F5 u Hne) as [A B]. split; [eapply pcq_trans; [apply Ho; exact Hne | exact A] | rewrite B; apply Hfo; exact Hne].
  Qed.

  Lemma sstart_incall (o : @sop K V) : incall (sstart_pc o).
  Proof. destruct o; cbn [sstart_pc]; try (split; discriminate). unfold sstart_cx. destruct (sc_lie _); split; discriminate. Qed.

  (* the calls a Range can make through its visitor, at most: an entry of bucket b counts 2 * (length - b) *)
  Definition vbound (s : mstate) (o : @sop K V) : nat := match o with SRange _ => VPs s (h_cur s) 0 | _ => 0 end.

  (* (T1), general: thread t is idle, its next call is o -- ANY call, a Range whose visitor calls the map included --, the state
     is calm for t.  Run alone, t invokes o and returns from it after finitely many of its own steps; nobody else moves; the
     visitor makes at most [vbound s o] calls.  The measure that decreases with every step is the pair
     (PP s t, mu s (h_pc s t)), ordered lexicographically. *)
  Theorem s_solo_call_g s t o rest : TI s -> calm s t -> h_pc s t = QIdle -> h_todo s t = o :: rest ->
    exists m,
      let r := srun s (repeat t m) in
      h_pc (fst r) t = QIdle /\ h_todo (fst r) t = rest
      /\ In (SInv t o) (snd r) /\ (exists res, In (SRes t res) (snd r))
      /\ TI (fst r) /\ calm (fst r) t
      /\ (forall u, u <> t -> h_pc (fst r) u = h_pc s u /\ h_todo (fst r) u = h_todo s u /\ h_frame (fst r) u = h_frame s u)
      /\ nsub t (snd r) <= vbound s o.
  Proof.
    intros HT Hc Hp Ht. set (s1 := sinvoke s t o rest).
    pose proof (TI_invoke s t o rest HT Hp) as HT1. pose proof (calm_invoked s t o rest Hc) as Hc1. fold s1 in HT1, Hc1.
    assert (Ep : h_pc s1 t = sstart_pc o) by (unfold s1; cbn [XS_count.sinvoke h_pc]; destruct (Nat.eq_dec t t); congruence).
    destruct (sstart_incall o) as [Hi1 Hi2].
    assert (Hfr : h_frame s1 t = None).
    { unfold s1. cbn [XS_count.sinvoke h_frame]. destruct HT as [_ [_ [HXF _]]]. apply (xf_idle s HXF). rewrite Hp. exact (fun H => H). }
    assert (Epp : PP s1 t = vbound s o).
    { unfold PP, PPat. rewrite Ep, Hfr. cbn [fpart]. rewrite Nat.add_0_r.
      rewrite (Pr_ext s1 s) by reflexivity.
      destruct o; cbn [sstart_pc vbound Pr]; try reflexivity. apply (proj1 (Pr_start s _)). }
    destruct (solo_completes_g t (PP s1 t) (mu s1 (h_pc s1 t)) s1 HT1 (calm_q _ _ Hc1)) as [m Hfin];
      [rewrite Ep; exact Hi1 | apply le_n | apply le_n|]. cbv zeta in Hfin.
    destruct m as [|m]; [cbn [repeat XMachineS.srun fst] in Hfin; destruct Hfin as [F _]; rewrite Ep in F; contradiction|].
    exists (S m).
    assert (Hne : sstep_pc s1 t (sstart_pc o) <> None) by (rewrite <- Ep; apply (calm_enabled s1 t HT1 (calm_q _ _ Hc1)); rewrite Ep; exact Hi1).
    cbv zeta. rewrite (invoke_run eqd hash idx tophash nslots seeds grow_needed shrink_policy nstripes minlen grow_only s t o rest m Hp Ht Hne).
    fold s1. cbn [fst snd].
    destruct Hfin as [F1 [F2 [F3 [F4 [F5 [F6 F7]]]]]].
    assert (Hoth : forall u, u <> t -> h_pc (fst (srun s1 (repeat t (S m)))) u = h_pc s u).
    { intros u Hne'. destruct (F5 u Hne') as [A _]. rewrite (pcq_not_waiting _ _ A); [|apply (Hc1 u Hne')].
      unfold s1. cbn [XS_count.sinvoke h_pc]. destruct (Nat.eq_dec u t); [contradiction | reflexivity]. }
    split; [exact F1|]. split; [rewrite F6; unfold s1; cbn [XS_count.sinvoke h_todo]; destruct (Nat.eq_dec t t); congruence|].
    split; [left; reflexivity|]. split; [destruct F2 as [res F2]; [rewrite Ep; exact Hi2 | exists res; right; exact F2]|]. split; [exact F3|]. split; [|split].
    - intros u Hne'. destruct (F4 u Hne') as [A [B C]]. split; [exact A|]. split; [exact B|]. split; [exact C|].
      rewrite (Hoth u Hne'). apply (Hc u Hne').
    - intros u Hne'. split; [apply Hoth; exact Hne'|]. split.
      + rewrite F6. unfold s1. cbn [XS_count.sinvoke h_todo]. destruct (Nat.eq_dec u t); [contradiction | reflexivity].
      + destruct (F5 u Hne') as [_ B]. rewrite B. reflexivity.
    - rewrite <- Epp. exact F7.
  Qed.

  (* (T1), general, for a thread inside a call -- also inside a call made by the visitor of its Range *)
  Theorem s_solo_finish_g s t : TI s -> calm s t -> incall (h_pc s t) ->
    exists m,
      let r := srun s (repeat t m) in
      h_pc (fst r) t = QIdle /\ (exists res, In (SRes t res) (snd r))
      /\ TI (fst r) /\ calm (fst r) t
      /\ (forall u, u <> t -> h_pc (fst r) u = h_pc s u /\ h_frame (fst r) u = h_frame s u) /\ h_todo (fst r) = h_todo s
      /\ nsub t (snd r) <= PP s t.
  Proof.
    intros HT Hc [Hi1 Hi2].
    destruct (solo_completes_g t _ _ s HT (calm_q _ _ Hc) Hi1 (le_n _) (le_n _)) as [m Hf]. cbv zeta in Hf.
    destruct Hf as [F1 [F2 [F3 [F4 [F5 [F6 F7]]]]]].
    assert (Hoth : forall u, u <> t -> h_pc (fst (srun s (repeat t m))) u = h_pc s u).
    { intros u Hne. destruct (F5 u Hne) as [A _]. apply (pcq_not_waiting _ _ A). apply (Hc u Hne). }
    exists m. cbv zeta. split; [exact F1|]. split; [apply F2; exact Hi2|]. split; [exact F3|]. split.
    - intros u Hne. destruct (F4 u Hne) as [A [B C]]. split; [exact A|]. split; [exact B|]. split; [exact C|]. rewrite (Hoth u Hne). apply (Hc u Hne).
    - split; [|split; [exact F6 | exact F7]]. intros u Hne. split; [apply Hoth; exact Hne | apply (F5 u Hne)].
  Qed.


  (* ================ (T2) from every reachable state all threads can finish ================ *)

  (* what a step does to the other threads, whatever the state *)
  Lemma step_oth s t p s' ls : TI s -> h_pc s t = p -> sstep_pc s t p = Some (s', ls) ->
    (forall u, u <> t -> h_pc s' u = (if is_bcast_s p then swake (h_pc s u) else h_pc s u) /\ h_frame s' u = h_frame s u)
    /\ h_todo s' = h_todo s.
  Proof.
    intros [[HI _] _] Hp Hs.
    assert (HF : frames_ok s) by (intros u fr E; apply (si_frame s HI u fr E)).
    assert (Hw : swf p) by (rewrite <- Hp; apply (si_wf s HI)).
    destruct (sstep_effect eqd hash idx tophash nslots seeds grow_needed shrink_policy nstripes minlen grow_only s t p s' ls HF Hw Hs) as [Hoth _].
    split; [|apply (step_todo s t p s' ls Hs)].
    intros u Hne. split; [apply Hoth; exact Hne|].
    apply (step_frame_oth eqd hash idx tophash nslots seeds grow_needed shrink_policy nstripes minlen grow_only s t p s' ls Hs u Hne).
  Qed.

  (* ---------------- phase A: every critical section is left ---------------- *)

  Definition hnb (s : mstate) (tab : nat) (cx : @scx K V) : nat :=
    snbuckets nslots (schain_of (stab_at s tab) (shome (stab_at s tab) (sc_k cx))).

  (* how many more steps the holder of a bucket lock needs, at most, before it releases it *)
  Definition csb (s : mstate) (p : spc) : nat :=
    match p with
    | QW_ChkRes cx tab => 3 + (hnb s tab cx + NS s tab + 12)
    | QW_ChkTab cx tab => 2 + (hnb s tab cx + NS s tab + 12)
    | QW_Scan cx tab bi _ _ => (hnb s tab cx - bi) + NS s tab + 11
    | QW_Sum _ tab i _ => (NS s tab - i) + 5
    | QW_D1 _ _ _ _ _ _ => 6 | QW_D2 _ _ _ _ _ => 5 | QW_D3 _ _ _ _ _ => 4
    | QW_U1 _ _ _ _ _ => 3
    | QW_I0 _ _ _ _ => 7 | QW_I1 _ _ _ _ _ => 6 | QW_I2 _ _ _ _ => 5 | QW_I3 _ _ _ _ => 4
    | QW_N1 _ _ _ => 3
    | QU_Load _ _ _ _ => 2
    | QU_Store _ _ _ _ _ => 1
    | _ => 0
    end.

  Lemma sgoto_pc_q (S0 : mstate) t q ls : (forall r, q <> QRet r) -> h_pc (fst (sgoto S0 t q ls)) t = q.
  Proof.
    intros Hq. destruct q; cbn [sgoto fst sset_pc h_pc]; try (destruct (Nat.eq_dec t t) as [_|Hx]; [reflexivity | exfalso; apply Hx; reflexivity]).
    exfalso. eapply Hq. reflexivity.
  Qed.

  Lemma csb_set_pc s t x (q : spc) : csb (sset_pc s t x) q = csb s q.
  Proof. destruct q; reflexivity. Qed.

  Lemma sgoto_fst_q (S0 : mstate) t q ls : (forall r, q <> QRet r) -> fst (sgoto S0 t q ls) = sset_pc S0 t q.
  Proof. intros Hq. destruct q; try reflexivity. exfalso. eapply Hq. reflexivity. Qed.

  Lemma svisits_nohold (S0 : mstate) t rest vf after T : nolock after = true -> forall ls,
    sholdsT hash idx nslots nstripes T (h_pc (fst (svisits S0 t rest vf after ls)) t) = None.
  Proof.
    intros Ha. induction rest as [|[k v] r IH]; intros ls; cbn [svisits].
    - destruct after; cbn [fst sset_pc h_pc]; (destruct (Nat.eq_dec t t) as [_|Hx]; [|exfalso; apply Hx; reflexivity]);
        first [reflexivity | apply nolock_holds; exact Ha].
    - destruct (vf k v) as [cx|]; [|apply IH]. cbn [fst sset_pc h_pc]. destruct (Nat.eq_dec t t) as [_|Hx]; [|exfalso; apply Hx; reflexivity].
      apply nolock_holds. apply (start_cx_nolock hash idx nslots nstripes cx T t).
  Qed.

  Lemma sgoto_nohold (S0 : mstate) t q ls T : (forall f, h_frame S0 t = Some f -> nolock (rf_after f) = true) -> nolock q = true ->
    sholdsT hash idx nslots nstripes T (h_pc (fst (sgoto S0 t q ls)) t) = None.
  Proof.
    intros HF Hq. destruct q; cbn [sgoto fst sset_pc h_pc];
      try (destruct (Nat.eq_dec t t) as [_|Hx]; [|exfalso; apply Hx; reflexivity]; apply nolock_holds; exact Hq).
    destruct (h_frame S0 t) as [f|] eqn:E; [apply svisits_nohold; apply (HF f eq_refl)|].
    cbn [fst sset_pc h_pc]. destruct (Nat.eq_dec t t) as [_|Hx]; [reflexivity | exfalso; apply Hx; reflexivity].
  Qed.

  Lemma cs_step s t p s' ls tab b : TI s -> h_pc s t = p -> sholds s p = Some (tab, b) -> sstep_pc s t p = Some (s', ls) ->
    sholds s' (h_pc s' t) = None \/ csb s' (h_pc s' t) < csb s p.
  Proof.
    intros HT Hp Hh Hs. pose proof HT as [[_ [HL _]] _].
    pose proof (xl_pc _ _ _ _ s HL t) as Hv. rewrite Hp in Hv.
    assert (HFR : forall f, h_frame s t = Some f -> nolock (rf_after f) = true) by (intros f E; apply (xl_frame _ _ _ _ s HL t f E)).
    destruct p; try discriminate Hh; cbn [XMachineS.sstep_pc] in Hs; cbv zeta in Hs; unfold sfnev in Hs;
      repeat match type of Hs with context [match ?x with _ => _ end] => destruct x eqn:? end;
      try discriminate Hs; apply some_fst_s in Hs; subst s'; cbn [PCI] in Hv.
    all: try (right; rewrite sgoto_pc_q by (intros r0; discriminate); rewrite sgoto_fst_q by (intros r0; discriminate); cbn [csb];
              repeat match goal with
                     | |- context [hnb (sset_pc ?S0 ?T ?Q) ?a ?c] => change (hnb (sset_pc S0 T Q) a c) with (hnb S0 a c)
                     | |- context [NS (sset_pc ?S0 ?T ?Q) ?a] => change (NS (sset_pc S0 T Q) a) with (NS S0 a)
                     end;
              repeat match goal with H : Nat.ltb _ _ = true |- _ => apply Nat.ltb_lt in H end;
              unfold hnb, NS, snstr in *; lia).
    all: left.
    - apply svisits_nohold. tauto.
    - apply sgoto_nohold; [exact HFR | tauto].
  Qed.



  (* the holder of a bucket lock is never blocked *)
  Lemma holder_enabled s t tab b : TI s -> sholds s (h_pc s t) = Some (tab, b) -> sstep_pc s t (h_pc s t) <> None.
  Proof.
    intros HT Hh E. pose proof HT as [[HI [HL [HTt [HP HCS]]]] _].
    pose proof (proj1 (xt_pc s HTt t)) as Hle. pose proof (xl_lockA _ _ _ _ s HL t) as HlA.
    destruct (h_pc s t) eqn:Hp; try discriminate Hh; cbn [XMachineS.sstep_pc] in E; cbv zeta in E;
      repeat match type of E with context [match ?x with _ => _ end] => destruct x eqn:? end; try discriminate E.
    destruct (scan_found_val _ _ _ _ _ _ _ _ _ Heqs0) as [j [Hj [Hk Hv]]].
    destruct (sbucket_nth nslots _ bi j empty_mslot Hj) as [Hlt En]. rewrite En in Hk, Hv.
    cbn [tabs_le] in Hle. set (b0 := shome (stab_at s tab0) (sc_k cx)) in *.
    assert (Hb : b0 < m_len (tabT (h_tabs s) tab0)).
    { apply (shome_lt hash idx Hidx). apply (tb_ok_tabT nslots nstripes Hslots). apply (xl_tabs _ _ _ _ s HL). }
    assert (Hlk : lock_of s tab0 b0 = Some t) by (apply HlA; reflexivity).
    destruct (xcs_ch _ _ _ _ _ s HCS tab0 b0 Hle Hb) as [_ [_ Hsl]].
    destruct (Hsl (bi * nslots + j) Hlt) as [[F _]|[[k' [v' [id [_ [F _]]]]]|[p [F1 F2]]]].
    - apply Hk. exact F.
    - change (schain_of (stab_at s tab0) b0) with (schain_of (tabT (h_tabs s) tab0) b0) in Hv. rewrite F in Hv. discriminate Hv.
    - unfold holder_pc in F1. rewrite Hlk in F1. cbn [option_map] in F1. inversion F1; subst p. rewrite Hp in F2. discriminate F2.
  Qed.

  Lemma sholds_not_bcast s (p : spc) tab b : sholds s p = Some (tab, b) -> is_bcast_s p = false.
  Proof. destruct p; cbn; intros H; try discriminate H; reflexivity. Qed.

  Lemma drain_cs u : forall n s, TI s -> sholds s (h_pc s u) <> None -> csb s (h_pc s u) <= n ->
    exists m, let r := srun s (repeat u m) in
      sholds (fst r) (h_pc (fst r) u) = None /\ TI (fst r)
      /\ (forall w, w <> u -> h_pc (fst r) w = h_pc s w /\ h_frame (fst r) w = h_frame s w) /\ h_todo (fst r) = h_todo s.
  Proof.
    induction n as [|n IH]; intros s HT Hh Hb.
    all: destruct (sholds s (h_pc s u)) as [[tab b]|] eqn:Eh; [|exfalso; apply Hh; reflexivity].
    all: assert (Hni : h_pc s u <> QIdle) by (intros Ei; rewrite Ei in Eh; discriminate Eh).
    all: destruct (sstep_pc s u (h_pc s u)) as [[s1 ls1]|] eqn:E; [|exfalso; apply (holder_enabled s u tab b HT Eh E)].
    all: assert (Ex : sstep s u = Some (s1, ls1)) by (rewrite (sstep_of_pc s u Hni); exact E).
    all: pose proof (TI_sstep s u s1 ls1 HT Ex) as HT1.
    all: destruct (step_oth s u _ s1 ls1 HT eq_refl E) as [Hoth Htd].
    all: rewrite (sholds_not_bcast s _ tab b Eh) in Hoth.
    all: destruct (cs_step s u _ s1 ls1 tab b HT eq_refl Eh E) as [Hrel|Hdec].
    all: try (exists 1; cbv zeta; rewrite (srun_repeat_S s u 0 s1 ls1 Ex); cbn [repeat XMachineS.srun fst snd];
              split; [exact Hrel|]; split; [exact HT1|]; split; [exact Hoth | exact Htd]).
    - exfalso. lia.
    - destruct (sholds s1 (h_pc s1 u)) as [[tab1 b1]|] eqn:Eh1.
      + destruct (IH s1 HT1) as [m Hfin]; [rewrite Eh1; discriminate | lia|]. cbv zeta in Hfin.
        exists (S m). cbv zeta. rewrite (srun_repeat_S s u m s1 ls1 Ex). cbn [fst snd].
        destruct Hfin as [F1 [F2 [F3 F4]]]. split; [exact F1|]. split; [exact F2|].
        split; [|rewrite F4; exact Htd].
        intros w Hw. destruct (F3 w Hw) as [A B]. destruct (Hoth w Hw) as [C D]. split; congruence.
      + exists 1. cbv zeta. rewrite (srun_repeat_S s u 0 s1 ls1 Ex). cbn [repeat XMachineS.srun fst snd].
        split; [exact Eh1|]. split; [exact HT1|]. split; [exact Hoth | exact Htd].
  Qed.

  Lemma srun_app a : forall s b, srun s (a ++ b) = (fst (srun (fst (srun s a)) b), snd (srun s a) ++ snd (srun (fst (srun s a)) b)).
  Proof.
    induction a as [|t r IH]; intros s b; cbn [app XMachineS.srun].
    - cbn [fst snd app]. destruct (XMachineS.srun _ _ _ _ _ _ _ _ _ _ _ s b). reflexivity.
    - destruct (sstep s t) as [[s1 ls1]|]; [|apply IH].
      rewrite (IH s1 b). destruct (XMachineS.srun _ _ _ _ _ _ _ _ _ _ _ s1 r) as [s2 ls2]. cbn [fst snd].
      rewrite app_assoc. reflexivity.
  Qed.

  Lemma sholds_dec s (p : spc) : sholds s p = None \/ sholds s p <> None.
  Proof. destruct (sholds s p); [right; discriminate | left; reflexivity]. Qed.

  Lemma drain_all l : forall s, TI s ->
    exists sched, let r := srun s sched in
      TI (fst r) /\ (forall u, In u l -> sholds (fst r) (h_pc (fst r) u) = None)
      /\ (forall w, sholds s (h_pc s w) = None -> h_pc (fst r) w = h_pc s w /\ h_frame (fst r) w = h_frame s w) /\ h_todo (fst r) = h_todo s.
  Proof.
    induction l as [|u l IH]; intros s HT.
    - exists []. cbv zeta. cbn [XMachineS.srun fst snd]. split; [exact HT|]. split; [intros u []|]. split; auto.
    - destruct (sholds_dec s (h_pc s u)) as [Hn|Hh].
      + destruct (IH s HT) as [sched Hf]. cbv zeta in Hf. destruct Hf as [F1 [F2 [F3 F4]]]. exists sched. cbv zeta. split; [exact F1|]. split; [|split; assumption].
        intros v [<-|Hv]; [rewrite (proj1 (F3 u Hn)); apply (sholds_none_indep (h_tabs s)); exact Hn | apply F2; exact Hv].
      + destruct (drain_cs u _ s HT Hh (le_n _)) as [m Hd]. cbv zeta in Hd. destruct Hd as [D1 [D2 [D3 D4]]].
        set (s1 := fst (srun s (repeat u m))) in *.
        destruct (IH s1 D2) as [sched Hf]. cbv zeta in Hf. destruct Hf as [F1 [F2 [F3 F4]]].
        exists (repeat u m ++ sched). cbv zeta. rewrite srun_app. cbn [fst]. fold s1.
        split; [exact F1|]. split; [|split].
        * intros v [<-|Hv]; [rewrite (proj1 (F3 u D1)); apply (sholds_none_indep (h_tabs s1)); exact D1 | apply F2; exact Hv].
        * intros w Hw. assert (Hne : w <> u) by (intros ->; apply Hh; exact Hw).
          destruct (D3 w Hne) as [A B]. destruct (F3 w) as [C D]; [rewrite A; apply (sholds_none_indep (h_tabs s)); exact Hw|].
          split; congruence.
        * rewrite F4. exact D4.
  Qed.


  (* ---------------- phase M: resizeMu is released ---------------- *)

  Definition mubound (p : spc) : nat :=
    match p with
    | QR_FinStore _ => 3 | QR_FinBcast _ => 2 | QR_FinUnlock _ => 1
    | QT_Load _ _ => 2 | QT_Wait _ _ => 1 | QT_Unlock _ _ => 1
    | _ => 0
    end.

  Lemma contok_smu (a : spc) : contok a -> rk_ok a -> smu a = false.
  Proof.
    destruct a; cbn [contok]; intros H R; try contradiction; try reflexivity.
    cbn [rk_ok smu] in *. destruct R as [R _]. destruct a; try contradiction; reflexivity.
  Qed.

  Lemma smu_top (p : spc) : rk_ok p -> smu p = true -> 0 < mubound p.
  Proof.
    destruct p; cbn [smu mubound rk_ok]; intros R H; try discriminate H; try lia.
    - destruct R as [A B]. rewrite (contok_smu p A B) in H. discriminate H.
    - destruct R as [A B]. rewrite (contok_smu p A B) in H. discriminate H.
    - destruct R as [A B]. destruct p; try contradiction; discriminate H.
  Qed.

  Lemma nolock_cont kt : nolock (@srun_cont K V kt) = true.
  Proof. destruct kt; reflexivity. Qed.

  Lemma mu_bounded s t p s' ls : TI s -> h_pc s t = p -> smu p = true -> sstep_pc s t p = Some (s', ls) ->
    (smu (h_pc s' t) = false \/ mubound (h_pc s' t) < mubound p) /\ sholds s' (h_pc s' t) = None.
  Proof.
    intros HT Hp Hm Hs. pose proof HT as [[HI [HL _]] [_ [_ [_ HK]]]].
    pose proof (smu_top p) as Htop0. rewrite <- Hp in Htop0. specialize (Htop0 (rk_pc s HK t)). rewrite Hp in Htop0. specialize (Htop0 Hm).
    assert (HFR : forall f, h_frame s t = Some f -> nolock (rf_after f) = true) by (intros f E; apply (xl_frame _ _ _ _ s HL t f E)).
    assert (HT' : TI s').
    { apply (TI_sstep s t s' ls HT). rewrite sstep_of_pc by (intros E; rewrite E in Hp; rewrite <- Hp in Hm; discriminate Hm). rewrite Hp. exact Hs. }
    destruct HT' as [[HI' _] _].
    assert (Hrel : h_rmu s' = None -> smu (h_pc s' t) = false).
    { intros Hn. destruct (smu (h_pc s' t)) eqn:E; [|reflexivity]. pose proof (si_muA s' HI' t E). congruence. }
    destruct p; cbn [mubound] in Htop0; try lia; cbn [XMachineS.sstep_pc] in Hs; cbv zeta in Hs;
      repeat match type of Hs with context [match ?x with _ => _ end] => destruct x eqn:? end;
      try discriminate Hs; apply some_fst_s in Hs; subst s'.
    all: split; [| apply sgoto_nohold; [cbn [h_frame sset_flags]; exact HFR | first [reflexivity | apply nolock_cont]]].
    all: try (right; rewrite sgoto_pc_q by (intros r0; discriminate); cbn [mubound]; lia).
    all: left; apply Hrel; match goal with |- h_rmu (fst (sgoto ?S0 ?T ?Q ?L)) = _ => destruct (sgoto_flags S0 T Q L) as [G1 _]; rewrite G1; reflexivity end.
  Qed.

  Lemma drain_mu u : forall n s, TI s -> smu (h_pc s u) = true -> mubound (h_pc s u) <= n ->
    exists m, let r := srun s (repeat u m) in
      smu (h_pc (fst r) u) = false /\ sholds (fst r) (h_pc (fst r) u) = None /\ TI (fst r)
      /\ (forall w, w <> u -> pcq (h_pc s w) (h_pc (fst r) w) /\ h_frame (fst r) w = h_frame s w) /\ h_todo (fst r) = h_todo s.
  Proof.
    induction n as [|n IH]; intros s HT Hm Hb; pose proof HT as [[HI _] _].
    all: assert (Hni : h_pc s u <> QIdle) by (intros Ei; rewrite Ei in Hm; discriminate Hm).
    all: destruct (sstep_pc s u (h_pc s u)) as [[s1 ls1]|] eqn:E.
    all: try (exfalso; pose proof HT as [_ [_ [_ [_ HK]]]]; pose proof (smu_top _ (rk_pc s HK u) Hm) as Htop0;
              destruct (h_pc s u); cbn [mubound] in Htop0; try lia; cbn [XMachineS.sstep_pc] in E; discriminate E).
    all: assert (Ex : sstep s u = Some (s1, ls1)) by (rewrite (sstep_of_pc s u Hni); exact E).
    all: pose proof (TI_sstep s u s1 ls1 HT Ex) as HT1.
    all: destruct (step_oth s u _ s1 ls1 HT eq_refl E) as [Hoth Htd].
    all: assert (Ho : forall w, w <> u -> pcq (h_pc s w) (h_pc s1 w) /\ h_frame s1 w = h_frame s w)
           by (intros w Hw; destruct (Hoth w Hw) as [A B]; split; [rewrite A; destruct (is_bcast_s (h_pc s u)); [right | left]; reflexivity | exact B]).
    all: destruct (mu_bounded s u _ s1 ls1 HT eq_refl Hm E) as [[Hrel|Hdec] Hnl].
    all: try (exists 1; cbv zeta; rewrite (srun_repeat_S s u 0 s1 ls1 Ex); cbn [repeat XMachineS.srun fst snd];
              split; [exact Hrel|]; split; [exact Hnl|]; split; [exact HT1|]; split; [exact Ho | exact Htd]).
    - exfalso. lia.
    - destruct (smu (h_pc s1 u)) eqn:Em1.
      + destruct (IH s1 HT1 Em1) as [m Hfin]; [lia|]. cbv zeta in Hfin.
        exists (S m). cbv zeta. rewrite (srun_repeat_S s u m s1 ls1 Ex). cbn [fst snd].
        destruct Hfin as [F1 [F2 [F3 [F4 F5]]]]. split; [exact F1|]. split; [exact F2|]. split; [exact F3|].
        split; [|rewrite F5; exact Htd].
        intros w Hw. destruct (F4 w Hw) as [A B]. destruct (Ho w Hw) as [C D]. split; [eapply pcq_trans; eassumption | congruence].
      + exists 1. cbv zeta. rewrite (srun_repeat_S s u 0 s1 ls1 Ex). cbn [repeat XMachineS.srun fst snd].
        split; [exact Em1|]. split; [exact Hnl|]. split; [exact HT1|]. split; [exact Ho | exact Htd].
  Qed.


  (* ---------------- phases A, M, R: a state in which nobody holds anything ---------------- *)

  Definition quiet_all (s : mstate) : Prop :=
    (forall u, sholds s (h_pc s u) = None) /\ (forall u, smu (h_pc s u) = false) /\ (forall u, srz (h_pc s u) = false).

  Lemma pcq_holds s s' (p p' : spc) : pcq p p' -> sholds s p = None -> sholds s' p' = None.
  Proof. intros [->| ->] H; [apply (sholds_none_indep (h_tabs s)); exact H|]. destruct p; cbn in *; try discriminate H; reflexivity. Qed.
  Lemma pcq_mu (p p' : spc) : pcq p p' -> smu p = false -> smu p' = false.
  Proof. intros [->| ->] H; [exact H|]. destruct p; cbn in *; try discriminate H; auto. Qed.
  Lemma pcq_rz (p p' : spc) : pcq p p' -> srz p = false -> srz p' = false.
  Proof. intros [->| ->] H; [exact H|]. destruct p; cbn in *; try discriminate H; auto. Qed.
  Lemma pcq_start (p p' : spc) : pcq p p' -> p = QStart -> p' = QStart.
  Proof. intros [->| ->] H; rewrite H; reflexivity. Qed.

  Lemma reach_quiet (ths : list nat) s : TI s -> (forall u, ~ In u ths -> h_pc s u = QStart) ->
    exists sched, let r := srun s sched in
      TI (fst r) /\ quiet_all (fst r) /\ h_todo (fst r) = h_todo s /\ (forall u, h_pc s u = QStart -> h_pc (fst r) u = QStart).
  Proof.
    intros HT Hout.
    (* A *)
    destruct (drain_all ths s HT) as [sa Ha]. cbv zeta in Ha. destruct Ha as [A1 [A2 [A3 A4]]].
    set (s1 := fst (srun s sa)) in *.
    assert (NL1 : forall u, sholds s1 (h_pc s1 u) = None).
    { intros u. destruct (in_dec Nat.eq_dec u ths) as [Hi|Hi]; [apply A2; exact Hi|].
      assert (Hn : sholds s (h_pc s u) = None) by (rewrite (Hout u Hi); reflexivity).
      rewrite (proj1 (A3 u Hn)). apply (sholds_none_indep (h_tabs s)). exact Hn. }
    assert (PS1 : forall u, h_pc s u = QStart -> h_pc s1 u = QStart).
    { intros u E. rewrite (proj1 (A3 u ltac:(rewrite E; reflexivity))). exact E. }
    (* M *)
    assert (HM : exists sm, let r := srun s1 sm in TI (fst r) /\ (forall u, sholds (fst r) (h_pc (fst r) u) = None)
                            /\ (forall u, smu (h_pc (fst r) u) = false) /\ h_todo (fst r) = h_todo s1
                            /\ (forall u, h_pc s1 u = QStart -> h_pc (fst r) u = QStart)).
    { pose proof A1 as [[HI1 _] _]. destruct (h_rmu s1) as [m|] eqn:Em.
      - pose proof (si_muB s1 HI1 m Em) as Hm.
        destruct (drain_mu m _ s1 A1 Hm (le_n _)) as [k Hd]. cbv zeta in Hd. destruct Hd as [D1 [D2 [D3 [D4 D5]]]].
        exists (repeat m k). cbv zeta. split; [exact D3|]. split; [|split; [|split]].
        + intros u. destruct (Nat.eq_dec u m) as [->|Hne]; [exact D2 | apply (pcq_holds s1 _ _ _ (proj1 (D4 u Hne))); apply NL1].
        + intros u. destruct (Nat.eq_dec u m) as [->|Hne]; [exact D1|]. apply (pcq_mu _ _ (proj1 (D4 u Hne))).
          destruct (smu (h_pc s1 u)) eqn:Eu; [|reflexivity]. exfalso. apply Hne.
          pose proof (si_muA s1 HI1 u Eu). congruence.
        + exact D5.
        + intros u E. destruct (Nat.eq_dec u m) as [->|Hne]; [rewrite E in Hm; discriminate Hm | apply (pcq_start _ _ (proj1 (D4 u Hne)) E)].
      - exists []. cbv zeta. cbn [XMachineS.srun fst]. split; [exact A1|]. split; [exact NL1|]. split; [|split; auto].
        intros u. destruct (smu (h_pc s1 u)) eqn:Eu; [|reflexivity]. pose proof (si_muA s1 HI1 u Eu). congruence. }
    destruct HM as [sm Hm]. cbv zeta in Hm. destruct Hm as [M1 [M2 [M3 [M4 M5]]]].
    set (s2 := fst (srun s1 sm)) in *.
    (* R *)
    assert (HR : exists sr, let r := srun s2 sr in TI (fst r) /\ quiet_all (fst r) /\ h_todo (fst r) = h_todo s2
                            /\ (forall u, h_pc s2 u = QStart -> h_pc (fst r) u = QStart)).
    { pose proof M1 as [[HI2 _] _]. destruct (h_resizing s2) eqn:Ez.
      - destruct (si_rzC s2 HI2 Ez) as [r Hr].
        assert (Hq : qcalm s2 r).
        { intros u Hne. split; [apply M2|]. split; [apply M3|].
          destruct (srz (h_pc s2 u)) eqn:Eu; [|reflexivity]. exfalso. apply Hne. apply (si_rzB s2 HI2 u r Eu Hr). }
        assert (Hin : incall (h_pc s2 r)) by (split; intros E; rewrite E in Hr; discriminate Hr).
        destruct (solo_completes_g r _ _ s2 M1 Hq (proj1 Hin) (le_n _) (le_n _)) as [k Hf]. cbv zeta in Hf.
        destruct Hf as [F1 [_ [F3 [F4 [F5 [F6 _]]]]]].
        exists (repeat r k). cbv zeta. split; [exact F3|]. split; [|split; [exact F6|]].
        + split; [|split]; intros u; (destruct (Nat.eq_dec u r) as [->|Hne]; [rewrite F1; reflexivity | apply (F4 u Hne)]).
        + intros u E. destruct (Nat.eq_dec u r) as [->|Hne]; [destruct Hin as [_ Hs]; contradiction | apply (pcq_start _ _ (proj1 (F5 u Hne)) E)].
      - exists []. cbv zeta. cbn [XMachineS.srun fst]. split; [exact M1|]. split; [|split; auto].
        split; [exact M2|]. split; [exact M3|]. intros u. destruct (srz (h_pc s2 u)) eqn:Eu; [|reflexivity].
        pose proof (si_rzA s2 HI2 u Eu). congruence. }
    destruct HR as [sr Hr]. cbv zeta in Hr. destruct Hr as [R1 [R2 [R3 R4]]].
    exists (sa ++ sm ++ sr). cbv zeta. rewrite srun_app. cbn [fst]. fold s1. rewrite srun_app. cbn [fst]. fold s2.
    split; [exact R1|]. split; [exact R2|]. split; [rewrite R3, M4; exact A4|].
    intros u E. apply R4, M5, PS1. exact E.
  Qed.

  (* ---------------- phase 2: one thread after the other, alone ---------------- *)

  Lemma quiet_calm s t : TI s -> quiet_all s -> calm s t.
  Proof.
    intros [[HI _] _] [NL [NM NR]] u _. split; [apply NL|]. split; [apply NM|]. split; [apply NR|].
    destruct (swaiting (h_pc s u)) eqn:E; [|reflexivity]. exfalso.
    destruct (si_waiting s HI u E) as [Hr|[w Hw]].
    - destruct (si_rzC s HI Hr) as [r Hrz]. rewrite (NR r) in Hrz. discriminate Hrz.
    - pose proof (sbcast_mu _ Hw) as Hm. rewrite (NM w) in Hm. discriminate Hm.
  Qed.

  Lemma calm_idle_quiet s t : calm s t -> h_pc s t = QIdle -> quiet_all s.
  Proof.
    intros Hc Hp. split; [|split]; intros u; (destruct (Nat.eq_dec u t) as [->|Hne]; [rewrite Hp; reflexivity | apply (Hc u Hne)]).
  Qed.

  Definition finished (s : mstate) (t : nat) : Prop := h_pc s t = QIdle /\ h_todo s t = [].
  Definition same_thread (s s' : mstate) (u : nat) : Prop := h_pc s' u = h_pc s u /\ h_todo s' u = h_todo s u.

  Lemma finish_todo t : forall n s, TI s -> quiet_all s -> h_pc s t = QIdle -> length (h_todo s t) <= n ->
    exists sched, let r := srun s sched in
      TI (fst r) /\ quiet_all (fst r) /\ finished (fst r) t /\ (forall u, u <> t -> same_thread s (fst r) u).
  Proof.
    induction n as [|n IH]; intros s HT HQ Hp Hn.
    - exists []. cbv zeta. cbn [XMachineS.srun fst]. split; [exact HT|]. split; [exact HQ|]. split; [|intros; split; reflexivity].
      split; [exact Hp|]. destruct (h_todo s t); [reflexivity | cbn in Hn; lia].
    - destruct (h_todo s t) as [|o rest] eqn:Et.
      + exists []. cbv zeta. cbn [XMachineS.srun fst]. split; [exact HT|]. split; [exact HQ|]. split; [split; assumption | intros; split; reflexivity].
      + destruct (s_solo_call_g s t o rest HT (quiet_calm s t HT HQ) Hp Et) as [m Hf]. cbv zeta in Hf.
        destruct Hf as [F1 [F2 [_ [_ [F5 [F6 [F7 _]]]]]]].
        set (s1 := fst (srun s (repeat t m))) in *.
        destruct (IH s1 F5 (calm_idle_quiet s1 t F6 F1) F1) as [sched Hg]; [rewrite F2; cbn in Hn; lia|]. cbv zeta in Hg.
        destruct Hg as [G1 [G2 [G3 G4]]].
        exists (repeat t m ++ sched). cbv zeta. rewrite srun_app. cbn [fst]. fold s1.
        split; [exact G1|]. split; [exact G2|]. split; [exact G3|].
        intros u Hne. destruct (G4 u Hne) as [A B]. destruct (F7 u Hne) as [C [D _]]. split; congruence.
  Qed.

  Lemma finish_thread t s : TI s -> quiet_all s ->
    exists sched, let r := srun s sched in
      TI (fst r) /\ quiet_all (fst r) /\ finished (fst r) t /\ (forall u, u <> t -> same_thread s (fst r) u).
  Proof.
    intros HT HQ.
    assert (H1 : exists sched, let r := srun s sched in
              TI (fst r) /\ quiet_all (fst r) /\ h_pc (fst r) t = QIdle /\ (forall u, u <> t -> same_thread s (fst r) u)).
    { destruct (pc_eq_idle (h_pc s t)) as [Ei|Ei].
      - exists []. cbv zeta. cbn [XMachineS.srun fst]. split; [exact HT|]. split; [exact HQ|]. split; [exact Ei|]. intros; split; reflexivity.
      - destruct (h_pc s t) eqn:Ep; try (
          assert (Hin : incall (h_pc s t)) by (rewrite Ep; split; discriminate);
          destruct (s_solo_finish_g s t HT (quiet_calm s t HT HQ) Hin) as [m Hf]; cbv zeta in Hf;
          destruct Hf as [F1 [_ [F3 [F4 [F5 [F6 _]]]]]];
          exists (repeat t m); cbv zeta; split; [exact F3|]; split; [apply (calm_idle_quiet _ t F4 F1)|]; split; [exact F1|];
          intros u Hne; split; [apply (F5 u Hne) | rewrite F6; reflexivity]).
        + (* QStart *)
          assert (Ex : sstep s t = Some (sset_pc s t QIdle, [SStep t SKStart])) by (unfold XMachineS.sstep; rewrite Ep; reflexivity).
          exists [t]. cbv zeta. cbn [XMachineS.srun]. rewrite Ex. cbn [fst].
          split; [apply (TI_sstep s t _ _ HT Ex)|]. destruct HQ as [NL [NM NR]].
          split; [|split].
          * split; [|split]; intros u; cbn [sset_pc h_pc]; (destruct (Nat.eq_dec u t); [reflexivity|]); [apply NL | apply NM | apply NR].
          * cbn [sset_pc h_pc]. destruct (Nat.eq_dec t t) as [_|Hx]; [reflexivity | exfalso; apply Hx; reflexivity].
          * intros u Hne. split; [cbn [sset_pc h_pc]; destruct (Nat.eq_dec u t); [contradiction | reflexivity] | reflexivity].
        + exfalso. apply Ei. reflexivity. }
    destruct H1 as [s0 Hf]. cbv zeta in Hf. destruct Hf as [F1 [F2 [F3 F4]]].
    set (s1 := fst (srun s s0)) in *.
    destruct (finish_todo t _ s1 F1 F2 F3 (le_n _)) as [sched Hg]. cbv zeta in Hg. destruct Hg as [G1 [G2 [G3 G4]]].
    exists (s0 ++ sched). cbv zeta. rewrite srun_app. cbn [fst]. fold s1.
    split; [exact G1|]. split; [exact G2|]. split; [exact G3|].
    intros u Hne. destruct (G4 u Hne) as [A B]. destruct (F4 u Hne) as [C D]. split; congruence.
  Qed.

  Lemma finish_list l : forall s, TI s -> quiet_all s ->
    exists sched, let r := srun s sched in
      TI (fst r) /\ quiet_all (fst r) /\ (forall t, In t l -> finished (fst r) t) /\ (forall u, ~ In u l -> same_thread s (fst r) u).
  Proof.
    induction l as [|t l IH]; intros s HT HQ.
    - exists []. cbv zeta. cbn [XMachineS.srun fst]. split; [exact HT|]. split; [exact HQ|]. split; [intros t []|]. intros; split; reflexivity.
    - destruct (finish_thread t s HT HQ) as [s0 Hf]. cbv zeta in Hf. destruct Hf as [F1 [F2 [F3 F4]]].
      set (s1 := fst (srun s s0)) in *.
      destruct (IH s1 F1 F2) as [sched Hg]. cbv zeta in Hg. destruct Hg as [G1 [G2 [G3 G4]]].
      exists (s0 ++ sched). cbv zeta. rewrite srun_app. cbn [fst]. fold s1.
      split; [exact G1|]. split; [exact G2|]. split.
      + intros u [<-|Hu]; [|apply G3; exact Hu].
        destruct (in_dec Nat.eq_dec t l) as [Hi|Hi]; [apply G3; exact Hi|].
        destruct (G4 t Hi) as [A B]. destruct F3 as [C D]. split; congruence.
      + intros u Hu. assert (Hne : u <> t) by (intros ->; apply Hu; left; reflexivity).
        assert (Hnl : ~ In u l) by (intros H; apply Hu; right; exact H).
        destruct (G4 u Hnl) as [A B]. destruct (F4 u Hne) as [C D]. split; congruence.
  Qed.

  (* (T2) no reachable state is doomed *)
  Theorem s_can_finish (ths : list nat) s : TI s -> (forall u, ~ In u ths -> h_pc s u = QStart) ->
    exists sched, let r := srun s sched in
      (forall t, In t ths -> finished (fst r) t) /\ (forall u, ~ In u ths -> h_pc (fst r) u = QStart /\ h_todo (fst r) u = h_todo s u)
      /\ TI (fst r) /\ quiet_all (fst r).
  Proof.
    intros HT Hout.
    destruct (reach_quiet ths s HT Hout) as [s0 Hq]. cbv zeta in Hq. destruct Hq as [Q1 [Q2 [Q3 Q4]]].
    set (s1 := fst (srun s s0)) in *.
    destruct (finish_list ths s1 Q1 Q2) as [sched Hf]. cbv zeta in Hf. destruct Hf as [F1 [F2 [F3 F4]]].
    exists (s0 ++ sched). cbv zeta. rewrite srun_app. cbn [fst]. fold s1.
    split; [exact F3|]. split; [|split; assumption].
    intros u Hu. destruct (F4 u Hu) as [A B]. split; [rewrite A; apply Q4; apply Hout; exact Hu | rewrite B, Q3; reflexivity].
  Qed.

  (* a thread that has not started is not touched by the steps of the others *)
  Lemma start_stays s t s' ls u : TI s -> sstep s t = Some (s', ls) -> u <> t -> h_pc s u = QStart -> h_pc s' u = QStart.
  Proof.
    intros HT E Hne Hu.
    assert (Hgen : forall s0 p s9 ls9, TI s0 -> h_pc s0 t = p -> h_pc s0 u = QStart -> sstep_pc s0 t p = Some (s9, ls9) -> h_pc s9 u = QStart).
    { intros s0 p s9 ls9 HT0 Hp Hu0 Hs. destruct (step_oth s0 t p s9 ls9 HT0 Hp Hs) as [Ho _]. rewrite (proj1 (Ho u Hne)), Hu0.
      destruct (is_bcast_s p); reflexivity. }
    unfold XMachineS.sstep in E.
    destruct (h_pc s t) eqn:Hp; try (apply (Hgen s _ s' ls HT Hp Hu E)).
    destruct (h_todo s t) as [|o rest] eqn:Et; [discriminate|].
    change (match sstep_pc (sinvoke s t o rest) t (sstart_pc o) with
            | Some (s2, ls0) => Some (s2, SInv t o :: ls0)
            | None => Some (sinvoke s t o rest, [SInv t o])
            end = Some (s', ls)) in E.
    assert (Hu1 : h_pc (sinvoke s t o rest) u = QStart) by (cbn [XS_count.sinvoke h_pc]; destruct (Nat.eq_dec u t); [contradiction | exact Hu]).
    destruct (sstep_pc (sinvoke s t o rest) t (sstart_pc o)) as [[s2 ls0]|] eqn:E2.
    - inversion E; subst s2 ls. apply (Hgen (sinvoke s t o rest) (sstart_pc o) s' ls0 (TI_invoke s t o rest HT Hp)); [cbn [XS_count.sinvoke h_pc]; destruct (Nat.eq_dec t t); congruence | exact Hu1 | exact E2].
    - inversion E; subst s' ls. exact Hu1.
  Qed.

  Lemma unscheduled_start sched : forall s u, TI s -> ~ In u sched -> h_pc s u = QStart -> h_pc (fst (srun s sched)) u = QStart.
  Proof.
    induction sched as [|t rest IH]; intros s u HT Hn Hu; cbn [XMachineS.srun]; [exact Hu|].
    assert (Hne : u <> t) by (intros ->; apply Hn; left; reflexivity).
    assert (Hn' : ~ In u rest) by (intros H; apply Hn; right; exact H).
    destruct (sstep s t) as [[s1 ls1]|] eqn:E; [|apply IH; assumption].
    specialize (IH s1 u (TI_sstep s t s1 ls1 HT E) Hn' (start_stays s t s1 ls1 u HT E Hne Hu)).
    destruct (XMachineS.srun _ _ _ _ _ _ _ _ _ _ _ s1 rest). exact IH.
  Qed.

End STerm.

(* ---------------- (T1) for every reachable state ---------------- *)
Section FinalT1.
  Context {K V : Type}.
  Variable eqd : forall a b : K, {a = b} + {a <> b}.
  Variable hash : K -> N -> N.
  Variable idx : N -> nat -> nat.
  Variable tophash : N -> N.
  Variable nslots : nat.
  Variable seeds : nat -> N.
  Variable grow_needed shrink_policy : nat -> Z -> bool.
  Variable nstripes : nat -> nat.
  Variable minlen : nat.
  Variable grow_only : bool.

  Notation srun := (@srun K V eqd hash idx tophash nslots seeds grow_needed shrink_policy nstripes minlen grow_only).

  (* the hypotheses on the parameters: those of XS_cells.v (rdhyps of XS_read.v) and a counter with at least one stripe *)
  Definition sthyps : Prop := rdhyps hash idx tophash nslots minlen /\ forall len, 0 < nstripes len.

  Lemma reachable_TI : sthyps -> forall len0 todo sched, 0 < len0 ->
    TI hash idx tophash nslots nstripes (fst (srun (sinit nslots seeds nstripes len0 todo) sched)).
  Proof.
    intros [[[H1 H2] [H3 [H4 H5]]] H6] len0 todo sched Hl.
    apply (TI_srun eqd hash idx tophash nslots seeds grow_needed shrink_policy nstripes minlen grow_only); try assumption.
    apply (TI_init eqd hash idx tophash nslots seeds grow_needed shrink_policy nstripes minlen grow_only); assumption.
  Qed.

  Theorem s_solo_call_proof :
    sthyps -> ghyp grow_needed -> forall len0 todo sched t o rest, 0 < len0 ->
    let s := fst (srun (sinit nslots seeds nstripes len0 todo) sched) in
    calm hash idx nslots nstripes s t -> h_pc s t = QIdle -> h_todo s t = o :: rest -> ncb_op o ->
    exists m, m <= tbound hash idx nslots nstripes s t /\
      let r := srun s (repeat t m) in
      h_pc (fst r) t = QIdle /\ h_todo (fst r) t = rest
      /\ In (SInv t o) (snd r) /\ (exists res, In (SRes t res) (snd r))
      /\ calm hash idx nslots nstripes (fst r) t
      /\ (forall u, u <> t -> h_pc (fst r) u = h_pc s u /\ h_todo (fst r) u = h_todo s u /\ h_frame (fst r) u = h_frame s u).
  Proof.
    intros Hx Hg len0 todo sched t o rest Hl s Hc Hp Ht Ho. pose proof Hx as [[[H1 H2] [H3 [H4 H5]]] H6].
    assert (Hsc := s_solo_call eqd hash idx tophash nslots seeds grow_needed shrink_policy nstripes minlen grow_only H2 H4 H1 H3 H5 H6 Hg
                s t o rest (reachable_TI Hx len0 todo sched Hl) Hc Hp Ht Ho).
    destruct Hsc as [m [Hm Hf]].
    exists m. split; [exact Hm|]. cbv zeta in *. tauto.
  Qed.

  (* (T1) in general, for every reachable state: ANY call, a Range whose visitor calls the map included (no numeric bound:
     the measure is the lexicographic pair (PP, mu), see lex_step) *)
  Theorem s_solo_call_g_proof :
    sthyps -> ghyp grow_needed -> forall len0 todo sched t o rest, 0 < len0 ->
    let s := fst (srun (sinit nslots seeds nstripes len0 todo) sched) in
    calm hash idx nslots nstripes s t -> h_pc s t = QIdle -> h_todo s t = o :: rest ->
    exists m,
      let r := srun s (repeat t m) in
      h_pc (fst r) t = QIdle /\ h_todo (fst r) t = rest
      /\ In (SInv t o) (snd r) /\ (exists res, In (SRes t res) (snd r))
      /\ calm hash idx nslots nstripes (fst r) t
      /\ (forall u, u <> t -> h_pc (fst r) u = h_pc s u /\ h_todo (fst r) u = h_todo s u /\ h_frame (fst r) u = h_frame s u)
      /\ nsub t (snd r) <= vbound nslots nstripes s o.
  Proof.
    intros Hx Hg len0 todo sched t o rest Hl s Hc Hp Ht. pose proof Hx as [[[H1 H2] [H3 [H4 H5]]] H6].
    assert (Hsc := s_solo_call_g eqd hash idx tophash nslots seeds grow_needed shrink_policy nstripes minlen grow_only H2 H4 H1 H3 H5 H6 Hg
                s t o rest (reachable_TI Hx len0 todo sched Hl) Hc Hp Ht).
    destruct Hsc as [m Hf].
    exists m. cbv zeta in *. tauto.
  Qed.

  (* (T2) for every reachable state *)
  Theorem s_can_always_finish :
    sthyps -> ghyp grow_needed -> forall len0 todo sched ths, 0 < len0 ->
    (forall u, In u sched -> In u ths) ->
    let s := fst (srun (sinit nslots seeds nstripes len0 todo) sched) in
    exists cont, let r := srun s cont in
      (forall t, In t ths -> h_pc (fst r) t = QIdle /\ h_todo (fst r) t = [])
      /\ (forall u, ~ In u ths -> h_pc (fst r) u = QStart /\ h_todo (fst r) u = h_todo s u).
  Proof.
    intros Hx Hg len0 todo sched ths Hl Hs s. pose proof Hx as [[[H1 H2] [H3 [H4 H5]]] H6].
    pose proof (reachable_TI Hx len0 todo sched Hl) as HT. fold s in HT.
    assert (HT0 : TI hash idx tophash nslots nstripes (sinit nslots seeds nstripes len0 todo)).
    { apply (TI_init eqd hash idx tophash nslots seeds grow_needed shrink_policy nstripes minlen grow_only); assumption. }
    assert (Hout : forall u, ~ In u ths -> h_pc s u = QStart).
    { intros u Hu. unfold s.
      apply (unscheduled_start eqd hash idx tophash nslots seeds grow_needed shrink_policy nstripes minlen grow_only); try assumption;
        [intros Hi; apply Hu; apply Hs; exact Hi | reflexivity]. }
    assert (Hf := s_can_finish eqd hash idx tophash nslots seeds grow_needed shrink_policy nstripes minlen grow_only H2 H4 H1 H3 H5 H6 Hg ths s HT Hout).
    destruct Hf as [c Hf]. exists c. cbv zeta in *. destruct Hf as [F1 [F2 _]]. split; [exact F1 | exact F2].
  Qed.
End FinalT1.

(* ---------------- the executable instance (XExecS: the numbers of map.go) ---------------- *)
From CacheV Require Import TabExec Exec XExec XExecS.
From CacheV.gen Require Import Params.
From CacheV.proofs Require Import X_inst XS_inst XS_cinst XS_rdinst.

(* map.go grows when  len * entriesPerMapBucket * 0.75 < size : that needs len < size *)
Lemma s_instance_ghyp : ghyp grow_needed_s.
Proof.
  intros len sum H. unfold grow_needed_s in H. apply Z.ltb_lt in H.
  assert (Z.of_nat len <= Z.of_nat len * entriesPerMapBucket * mapLoadFactor_num / mapLoadFactor_den)%Z; [|lia].
  apply Z.div_le_lower_bound; [vm_compute; reflexivity|]. change entriesPerMapBucket with 3%Z. change mapLoadFactor_num with 3%Z. change mapLoadFactor_den with 4%Z. lia.
Qed.

Lemma s_instance_sthyps o hint : oracle64 o ->
  sthyps (hash_of o) idx_map tag_map (nslots_of false) nstripes_x (minlen_of_hint false hint).
Proof. intros Ho. split; [apply s_instance_rdhyps; exact Ho | exact nstripes_x_pos]. Qed.

Notation s_run o seeds hint :=
  (srun zeqd (hash_of o) idx_map tag_map (nslots_of false) (seeds_of seeds) grow_needed_s shrink_policy_s
        nstripes_x (minlen_of_hint false hint) false).

Theorem s_machine_solo_call (o : oracle) (seeds : list N) (hint : Z) (todo : nat -> list sop_z) (sched : list nat) t op rest : oracle64 o ->
  let s := fst (s_run o seeds hint (s_machine_init seeds hint todo) sched) in
  calm (hash_of o) idx_map (nslots_of false) nstripes_x s t -> h_pc s t = QIdle -> h_todo s t = op :: rest -> ncb_op op ->
  exists m, (m <= tbound (hash_of o) idx_map (nslots_of false) nstripes_x s t)%nat /\
    let r := s_run o seeds hint s (repeat t m) in
    h_pc (fst r) t = QIdle /\ h_todo (fst r) t = rest
    /\ In (SInv t op) (snd r) /\ (exists res, In (SRes t res) (snd r))
    /\ calm (hash_of o) idx_map (nslots_of false) nstripes_x (fst r) t
    /\ (forall u, u <> t -> h_pc (fst r) u = h_pc s u /\ h_todo (fst r) u = h_todo s u /\ h_frame (fst r) u = h_frame s u).
Proof.
  intros Ho. unfold s_machine_init.
  apply (s_solo_call_proof zeqd (hash_of o) idx_map tag_map (nslots_of false) (seeds_of seeds) grow_needed_s shrink_policy_s nstripes_x
           (minlen_of_hint false hint) false (s_instance_sthyps o hint Ho) s_instance_ghyp).
  apply minlen_of_hint_pos.
Qed.

Theorem s_machine_solo_call_g (o : oracle) (seeds : list N) (hint : Z) (todo : nat -> list sop_z) (sched : list nat) t op rest : oracle64 o ->
  let s := fst (s_run o seeds hint (s_machine_init seeds hint todo) sched) in
  calm (hash_of o) idx_map (nslots_of false) nstripes_x s t -> h_pc s t = QIdle -> h_todo s t = op :: rest ->
  exists m,
    let r := s_run o seeds hint s (repeat t m) in
    h_pc (fst r) t = QIdle /\ h_todo (fst r) t = rest
    /\ In (SInv t op) (snd r) /\ (exists res, In (SRes t res) (snd r))
    /\ calm (hash_of o) idx_map (nslots_of false) nstripes_x (fst r) t
    /\ (forall u, u <> t -> h_pc (fst r) u = h_pc s u /\ h_todo (fst r) u = h_todo s u /\ h_frame (fst r) u = h_frame s u)
    /\ (nsub t (snd r) <= vbound (nslots_of false) nstripes_x s op)%nat.
Proof.
  intros Ho. unfold s_machine_init.
  apply (s_solo_call_g_proof zeqd (hash_of o) idx_map tag_map (nslots_of false) (seeds_of seeds) grow_needed_s shrink_policy_s nstripes_x
           (minlen_of_hint false hint) false (s_instance_sthyps o hint Ho) s_instance_ghyp).
  apply minlen_of_hint_pos.
Qed.

Theorem s_machine_can_always_finish (o : oracle) (seeds : list N) (hint : Z) (todo : nat -> list sop_z) (sched ths : list nat) :
  oracle64 o -> (forall u, In u sched -> In u ths) ->
  let s := fst (s_run o seeds hint (s_machine_init seeds hint todo) sched) in
  exists cont, let r := s_run o seeds hint s cont in
    (forall t, In t ths -> h_pc (fst r) t = QIdle /\ h_todo (fst r) t = [])
    /\ (forall u, ~ In u ths -> h_pc (fst r) u = QStart /\ h_todo (fst r) u = h_todo s u).
Proof.
  intros Ho Hs. unfold s_machine_init.
  apply (s_can_always_finish zeqd (hash_of o) idx_map tag_map (nslots_of false) (seeds_of seeds) grow_needed_s shrink_policy_s nstripes_x
           (minlen_of_hint false hint) false (s_instance_sthyps o hint Ho) s_instance_ghyp);
    [apply minlen_of_hint_pos | exact Hs].
Qed.

(* ---------------- non-vacuity, and why ghyp is needed ---------------- *)
Definition ses_st k v : @sop nat nat := SCompute k (fun _ => Some v) false false false.
Definition ses_hash := (fun (k : nat) (_ : N) => N.of_nat k).
Definition ses_idx := (fun (h : N) len => Nat.modulo (N.to_nat h) len).
Definition ses_grow (len : nat) (sum : Z) : bool := (Z.of_nat len <? sum)%Z.
Definition ses_run ix gn (s : @mstate nat nat) (sched : list nat) :=
  @srun nat nat Nat.eq_dec ses_hash ix (fun h => h) 1%nat (fun _ => 0%N) gn (fun _ _ => false) (fun _ => 1%nat) 1%nat false s sched.
Definition ses_init (l : list (@sop nat nat)) : @mstate nat nat :=
  sinit 1%nat (fun _ => 0%N) (fun _ => 1%nat) 1%nat (fun t => match t with 0%nat => l | _ => [] end).
Definition ses_bound (s : @mstate nat nat) : nat := tbound ses_hash ses_idx 1%nat (fun _ => 1%nat) s 0%nat.

(* One slot per bucket, one bucket, one stripe, grow when len < sum.  After Store 0 and Store 1 (25 steps) thread 0 is idle
   with Store 2 as its next call: the chain is full, it sums the counter (2 > 1), grows the table itself (lockBucket by
   Load + CAS, copy, unlock by Load + Store, publish, ...), retries in the new table, appends a bucket and returns:
   33 steps, bound 127, one growth. *)
Example s_solo_nonvacuous :
  let s := fst (ses_run ses_idx ses_grow (ses_init [ses_st 0 10; ses_st 1 11; ses_st 2 12]) (repeat 0 25)%nat) in
  h_pc s 0%nat = QIdle /\ length (h_todo s 0%nat) = 1%nat /\ h_growths s = 0%Z /\ ses_bound s = 127%nat
  /\ (forall n, In n [1; 10; 20; 30; 32]%nat -> h_pc (fst (ses_run ses_idx ses_grow s (repeat 0 n)%nat)) 0%nat <> QIdle)
  /\ h_pc (fst (ses_run ses_idx ses_grow s (repeat 0 33)%nat)) 0%nat = QIdle
  /\ h_growths (fst (ses_run ses_idx ses_grow s (repeat 0 33)%nat)) = 1%Z
  /\ h_todo (fst (ses_run ses_idx ses_grow s (repeat 0 33)%nat)) 0%nat = [].
Proof.
  repeat split; try (vm_compute; reflexivity).
  intros n Hn. cbn [In] in Hn. repeat (destruct Hn as [<-|Hn]; [vm_compute; discriminate|]). destruct Hn.
Qed.

(* WITHOUT ghyp a call of Map need not terminate even alone (as for MapOf): grow_needed := fun _ _ => true, every key in
   bucket 0: the second Store grows forever -- 9 growths and length 256 after 1600 solo steps, still inside the call. *)
Example s_solo_writer_grows_forever :
  let run n := fst (ses_run (fun _ _ => 0%nat) (fun _ _ => true) (ses_init [ses_st 0 10; ses_st 1 11]) (repeat 0 n)%nat) in
  (forall n, In n [20; 100; 400; 1600]%nat -> h_pc (run n) 0%nat <> QIdle /\ h_todo (run n) 0%nat = [])
  /\ h_growths (run 100%nat) = 3%Z /\ h_growths (run 1600%nat) = 9%Z
  /\ m_len (stab_at 1%nat (fun _ => 1%nat) (run 1600%nat) (h_cur (run 1600%nat))) = 256%nat.
Proof.
  repeat split; try (vm_compute; reflexivity).
  all: intros; cbn [In] in *; repeat (match goal with H : _ \/ _ |- _ => destruct H as [<-|H]; [vm_compute; first [discriminate | reflexivity]|] end); try contradiction.
Qed.

(* (T2) A reachable state that is calm for nobody: one slot per bucket, two buckets.  Thread 1 (Store 1) holds the lock bit of
   bucket 1 and has passed its checks (QW_Scan); thread 0 (its fourth Store finds the chain of bucket 0 full, 3 entries >
   length 2) is the resizer, has copied bucket 0 and spins on the lock word of bucket 1 (QK_Spin .. LKCopy); thread 2
   (Store 8) saw the flag, released bucket 0 and sits in the wait set of resizeCond (QT_Waiting).  A plain round robin of 30
   rounds finishes everybody (s_can_always_finish guarantees that SOME finite schedule does, from every reachable state). *)
Definition sex_init : @mstate nat nat :=
  sinit 1%nat (fun _ => 0%N) (fun _ => 1%nat) 2%nat
    (fun t => match t with
              | 0 => [ses_st 0 10; ses_st 2 12; ses_st 4 14; ses_st 6 16] | 1 => [ses_st 1 11] | 2 => [ses_st 8 18] | _ => [] end)%nat.
Definition sex_state : @mstate nat nat := fst (ses_run ses_idx ses_grow sex_init (repeat 1 6 ++ repeat 0 58 ++ repeat 2 10)%nat).

Example s_can_finish_nonvacuous :
  (exists hn kt new, h_pc sex_state 0%nat = QK_Spin 0%nat 1%nat (LKCopy hn kt new))
  /\ (exists cx, h_pc sex_state 1%nat = QW_Scan cx 0%nat 0%nat None 0%nat)
  /\ (exists kt, h_pc sex_state 2%nat = QT_Waiting None kt)
  /\ h_resizing sex_state = true
  /\ lock_of 1%nat (fun _ => 1%nat) sex_state 0%nat 1%nat = Some 1%nat
  /\ (let r := fst (ses_run ses_idx ses_grow sex_state (concat (repeat [0; 1; 2] 30))%nat) in
      forall t, In t [0; 1; 2]%nat -> h_pc r t = QIdle /\ h_todo r t = []).
Proof.
  split; [do 3 eexists; vm_compute; reflexivity|]. split; [eexists; vm_compute; reflexivity|].
  split; [eexists; vm_compute; reflexivity|]. split; [vm_compute; reflexivity|]. split; [vm_compute; reflexivity|].
  intros r t Ht. cbn [In] in Ht. repeat (destruct Ht as [<-|Ht]; [split; vm_compute; reflexivity|]). destruct Ht.
Qed.

(* (T1) with a visitor that calls the map.  Two buckets, one slot per bucket, never grow (ghyp holds vacuously).  After Store 0
   and Store 1 (27 steps) thread 0 is idle with a Range whose visitor stores key k + 3 for every entry (k, v) it sees.  Bucket 0
   holds key 0: the visit of (0, 10) calls Store 3, which lands in bucket 1 -- not yet locked by the Range; so bucket 1 is
   visited with TWO entries, (1, 11) and the new (3, 13), whose visits store keys 4 and 6 into bucket 0 (behind the Range).
   Three visits, three nested calls (vbound = 6), 43 steps; the first component PP of the measure goes 6, 5, 4, 3, 1, 0. *)
Definition sen_cx (k v : nat) : @scx nat nat := {| sc_k := k; sc_f := fun _ => Some v; sc_ev := false; sc_lie := false; sc_co := false |}.
Definition sen_vf : nat -> nat -> option (@scx nat nat) := fun k v => Some (sen_cx (k + 3) (v + 3)).
Definition sen_init : @mstate nat nat :=
  sinit 1%nat (fun _ => 0%N) (fun _ => 1%nat) 2%nat (fun t => match t with 0 => [ses_st 0 10; ses_st 1 11; SRange sen_vf] | _ => [] end)%nat.
Definition sen_run (s : @mstate nat nat) (n : nat) := ses_run ses_idx (fun _ _ => false) s (repeat 0 n)%nat.
Definition sen_isvisit (l : @slabel nat nat) : bool := match l with SVisit _ _ _ => true | _ => false end.
Definition sen_issub (l : @slabel nat nat) : bool := match l with SSubInv _ _ => true | _ => false end.

Example s_nested_nonvacuous :
  let s := fst (sen_run sen_init 27) in
  h_pc s 0%nat = QIdle /\ length (h_todo s 0%nat) = 1%nat
  /\ (forall n, In n [1; 10; 20; 30; 42]%nat -> h_pc (fst (sen_run s n)) 0%nat <> QIdle)
  /\ h_pc (fst (sen_run s 43)) 0%nat = QIdle /\ h_todo (fst (sen_run s 43)) 0%nat = []
  /\ filter sen_isvisit (snd (sen_run s 43)) = [SVisit 0 0 10; SVisit 0 1 11; SVisit 0 3 13]%nat
  /\ length (filter sen_issub (snd (sen_run s 43))) = 3%nat /\ nsub 0%nat (snd (sen_run s 43)) = 3%nat
  /\ vbound 1%nat (fun _ => 1%nat) s (SRange sen_vf) = 6%nat
  /\ map (fun n => PP 1%nat (fun _ => 1%nat) (fst (sen_run s n)) 0%nat) [1; 5; 16; 20; 31; 43]%nat = [6; 5; 4; 3; 1; 0]%nat.
Proof.
  repeat split; try (vm_compute; reflexivity).
  intros n Hn. cbn [In] in Hn. repeat (destruct Hn as [<-|Hn]; [vm_compute; discriminate|]). destruct Hn.
Qed.

