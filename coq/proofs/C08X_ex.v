(* C08X_ex.v -- C08 at the cache level on the executable instances (XExec.v, XExecS.v): a run
   of the cache methods over the machines by vm_compute, then Count at quiescence.
   Clock 100.  Thread 0 inserts the keys 1..125 (SetForever): the table GROWS on the way.
   Thread 1, interleaved: Set(1000, 1, 2^64 - 50) -- the duration makes now + d wrap around to
   50: the entry is stored ALREADY EXPIRED and nobody cleans it --, SetForever(1001, 2),
   Delete(1001).  Then nobody is inside a call; thread 2 calls Count: 126 = 125 live entries
   + 1 expired entry not yet removed. *)
From CacheV Require Import Base SpecMap Client CacheModel Ops SpecTTL Lin Conc.
From CacheV.gen Require Import Params.
From CacheV Require Import TabExec Exec XExec XExecS.
From CacheV.proofs Require Import X_swar XS_cinst XS_rinst XS_size X_count CX_compose CX_product CX_mapof CX_map
  C08X_product C08X_mapof C08X_map.
From CacheV Require XMachine XMachineS.
From CacheV.proofs Require X_inst.
From Coq Require Import NArith.
Local Open Scope Z_scope.

Definition many (n : nat) : list (cop Z Z) := map (fun i => OSetForever (Z.of_nat i) (Z.of_nat i)) (seq 1 n).
Definition todoG (t : nat) : list (cop Z Z) :=
  match t with
  | O => many 125
  | S O => [OSet 1000 1 (18446744073709551616 - 50); OSetForever 1001 2; ODelete 1001]
  | S (S O) => [OCount]
  | _ => []
  end.
Definition thm (n : nat) : nat * list (Z * item Z) := (n, []).
Definition schedG := concat (repeat [thm 0; thm 0; thm 0; thm 1] 700) ++ repeat (thm 0) 1500.

Lemma todoG_dormant : forall t, (3 <= t)%nat -> todoG t = [].
Proof. intros [|[|[|t]]] H; try lia; reflexivity. Qed.

(* ---------------- XMachine (MapOf) ---------------- *)

Notation c8x_run := (c8run zeqd (hash_of []) idx_mapof tag_mapof (Z.to_nat entriesPerMapOfBucket) (seeds_of [])
        grow_needed_m shrink_policy_m probe_x nstripes_x (minlen_of_hint true 0) false
        (prog_cache zeqd 0) 100 0 None).
Notation c8x_init := (c8init (Z.to_nat entriesPerMapOfBucket) (seeds_of []) nstripes_x (minlen_of_hint true 0) todoG).
Notation pGx := (fst (fst (c8x_run c8x_init schedG))).

(* the state reached: two tables (one grow), 126 pairs in the current one, of which one expired;
   every thread is between cache calls; thread 2's next call is Count; run alone it answers 126 *)
Example count_over_xmachine_run :
  (length (XMachine.g_tabs (p_x _ pGx)), XMachine.g_cur (p_x _ pGx)) = (2%nat, 1%nat)
  /\ (let l := X_count.tpairs (XMachine.tab_at (Z.to_nat entriesPerMapOfBucket) nstripes_x (p_x _ pGx) (XMachine.g_cur (p_x _ pGx))) in
      (length l, length (live_pairs 100 l), length (dead_pairs 100 l)) = (126%nat, 125%nat, 1%nat))
  /\ (p_thr _ pGx 0%nat, p_thr _ pGx 1%nat, p_thr _ pGx 2%nat) = (QIdle, QIdle, QIdle)
  /\ p_todo _ pGx 2%nat = [OCount]
  /\ cproj (snd (fst (c8x_run pGx (repeat (thm 2) 30)))) = [HInv 2 OCount; HRes 2 (CNat 126)].
Proof. vm_compute. repeat split; reflexivity. Qed.

Lemma c8x_dormant sched u : (3 <= u)%nat -> p_thr _ (fst (fst (c8x_run c8x_init sched))) u = QIdle.
Proof.
  intros Hge. unfold c8run.
  refine (proj1 (prun_dormant _ _ _ _ _ _ _ _ _ _ _ _ _ 3 sched c8x_init _ u Hge)).
  intros t Ht. split; [reflexivity | apply todoG_dormant; exact Ht].
Qed.

Example pGx_idle0 : p_thr _ pGx 0%nat = QIdle. Proof. vm_compute. reflexivity. Qed.
Example pGx_idle1 : p_thr _ pGx 1%nat = QIdle. Proof. vm_compute. reflexivity. Qed.
Example pGx_idle2 : p_thr _ pGx 2%nat = QIdle. Proof. vm_compute. reflexivity. Qed.
Example pGx_next : p_todo _ pGx 2%nat = [OCount]. Proof. vm_compute. reflexivity. Qed.

Lemma pGx_idle : forall u, p_thr _ pGx u = QIdle.
Proof.
  intros [|[|[|u]]]; [exact pGx_idle0 | exact pGx_idle1 | exact pGx_idle2|].
  apply (c8x_dormant schedG). lia.
Qed.

(* the theorem applies: some number of moves of thread 2 alone produce the invocation and the answer |pairs| *)
Notation lGx := (X_count.tpairs (XMachine.tab_at (Z.to_nat entriesPerMapOfBucket) nstripes_x (p_x _ pGx) (XMachine.g_cur (p_x _ pGx)))).
Example lGx_length : (length lGx, length (live_pairs 100 lGx), length (dead_pairs 100 lGx)) = (126%nat, 125%nat, 1%nat).
Proof. vm_compute. reflexivity. Qed.

Example count_over_xmachine_by_theorem :
  (exists j, cproj (snd (fst (c8x_run pGx (repeat (2%nat, []) j)))) = [HInv 2 OCount; HRes 2 (CNat (length lGx))])
  /\ NoDup (map fst lGx).
Proof.
  destruct (cache_count_quiescent_over_xmachine zeqd (hash_of []) idx_mapof tag_mapof (Z.to_nat entriesPerMapOfBucket) (seeds_of [])
              grow_needed_m shrink_policy_m probe_x nstripes_x (minlen_of_hint true 0) false 0 100 0 None
              (x_instance_hyps4 0) (minlen_of_hint true 0) todoG schedG 2%nat [])
    as [[j [A _]] [_ [Hnd _]]].
  - destruct (x_instance_hyps4 0) as [[_ [_ H]] _]. exact H.
  - exact pGx_idle.
  - exact pGx_next.
  - split; [exists j; exact A | exact Hnd].
Qed.

(* ---------------- XMachineS (Map) ---------------- *)

Notation c8s_run := (c8srun zeqd (hash_of []) idx_map tag_map (nslots_of false) (seeds_of [])
        grow_needed_s shrink_policy_s nstripes_x (minlen_of_hint false 0) false
        (prog_cache zeqd 0) 100 0 None).
Notation c8s_init := (c8sinit (nslots_of false) (seeds_of []) nstripes_x (minlen_of_hint false 0) todoG).
Definition schedS := schedG ++ repeat (thm 0) 3000.
Notation pGs := (fst (fst (c8s_run c8s_init schedS))).
Notation lGs := (XS_size.tpairs (XMachineS.stab_at (nslots_of false) nstripes_x (p_x _ pGs) (XMachineS.h_cur (p_x _ pGs)))).

Example count_over_smachine_run :
  (length (XMachineS.h_tabs (p_x _ pGs)), XMachineS.h_cur (p_x _ pGs)) = (2%nat, 1%nat)
  /\ (length lGs, length (live_pairs_s 100 lGs), length (dead_pairs_s 100 lGs)) = (126%nat, 125%nat, 1%nat)
  /\ cproj (snd (fst (c8s_run pGs (repeat (thm 2) 40)))) = [HInv 2 OCount; HRes 2 (CNat 126)].
Proof. vm_compute. repeat split; reflexivity. Qed.

Lemma c8s_dormant sched u : (3 <= u)%nat -> p_thr _ (fst (fst (c8s_run c8s_init sched))) u = QIdle.
Proof.
  intros Hge. unfold c8srun.
  refine (proj1 (prun_dormant _ _ _ _ _ _ _ _ _ _ _ _ _ 3 sched c8s_init _ u Hge)).
  intros t Ht. split; [reflexivity | apply todoG_dormant; exact Ht].
Qed.

Example pGs_idle0 : p_thr _ pGs 0%nat = QIdle. Proof. vm_compute. reflexivity. Qed.
Example pGs_idle1 : p_thr _ pGs 1%nat = QIdle. Proof. vm_compute. reflexivity. Qed.
Example pGs_idle2 : p_thr _ pGs 2%nat = QIdle. Proof. vm_compute. reflexivity. Qed.
Example pGs_next : p_todo _ pGs 2%nat = [OCount]. Proof. vm_compute. reflexivity. Qed.

Lemma pGs_idle : forall u, p_thr _ pGs u = QIdle.
Proof.
  intros [|[|[|u]]]; [exact pGs_idle0 | exact pGs_idle1 | exact pGs_idle2|].
  apply (c8s_dormant schedS). lia.
Qed.

Lemma oracle64_nil8 : oracle64 [].
Proof. constructor. Qed.

Example count_over_smachine_by_theorem :
  (exists j, cproj (snd (fst (c8s_run pGs (repeat (2%nat, []) j)))) = [HInv 2 OCount; HRes 2 (CNat (length lGs))])
  /\ NoDup (map fst lGs).
Proof.
  destruct (cache_count_quiescent_over_smachine zeqd (hash_of []) idx_map tag_map (nslots_of false) (seeds_of [])
              grow_needed_s shrink_policy_s nstripes_x (minlen_of_hint false 0) false 0 100 0 None
              (s_instance_szhyps [] 0 oracle64_nil8) (minlen_of_hint false 0) todoG schedS 2%nat [])
    as [[j [A _]] [_ [Hnd _]]].
  - apply X_inst.minlen_of_hint_pos.
  - exact pGs_idle.
  - exact pGs_next.
  - split; [exists j; exact A | exact Hnd].
Qed.
