(* Client.v -- the vocabulary in which the two cache models are written:
   items, the expiry predicates, closures that run under the bucket lock,
   client programs over map calls, and the sequential interpreter.
   No proofs here. *)
From CacheV Require Import Base SpecMap.
From CacheV.gen Require Import Params.

Section Client.
  Context {K V : Type}.
  Variable eqd : forall a b : K, {a = b} + {a <> b}.
  Variable zero : V.

  (* item.go / itemof.go *)
  Record item := { iv : V; ie : Z }.

  (* func (i *item) expiredWithNow(now int64) bool { return i.e > 0 && now > i.e } *)
  Definition expiredWithNow (now : Z) (i : item) : bool := (0 <? ie i) && (ie i <? now).

  (* identity of an evicted callback: nil, or a callback known by a number *)
  Definition cbid := option nat.

  (* what a closure or a method can do besides returning *)
  Inductive event :=
  | EFire (c : nat) (k : K) (v : V)      (* evicted callback invoked *)
  | EFn (k : K)                          (* user function of GetOrCompute / Compute invoked *)
  | EVisit (k : K) (v : V).              (* Range visitor invoked *)

  (* what the closure sees of the cache while it runs under the bucket lock:
     the clock and the default expiration in force at that moment *)
  Record env := { e_now : Z; e_dflt : Z }.

  (* side effects of a closure on variables captured from the enclosing method *)
  Record aux := { a_ok : bool; a_old : option item; a_fn : nat }.
  Definition aux0 : aux := {| a_ok := false; a_old := None; a_fn := 0 |}.

  Definition closure := env -> option item -> item * bool * aux.

  (* the map calls a cache method can make on c.items; a closure is applied to
     the environment by the interpreter at the moment of the call *)
  Inductive cmop :=
  | CLoad (k : K)
  | CStore (k : K) (i : item)
  | CCompute (k : K) (f : closure)
  | CLoadAndDelete (k : K)
  | CDelete (k : K)
  | CClear
  | CSize
  | CSnapshot.

  Definition imres := mres K item aux.

  Definition to_mop (e : env) (o : cmop) : mop K item aux :=
    match o with
    | CLoad k => MLoad k
    | CStore k i => MStore k i
    | CCompute k f => MCompute k (f e)
    | CLoadAndDelete k => MLoadAndDelete k
    | CDelete k => MDelete k
    | CClear => MClear
    | CSize => MSize
    | CSnapshot => MSnapshot
    end.

  Inductive prog (R : Type) : Type :=
  | Ret (r : R)
  | MapCall (o : cmop) (k : imres -> prog R)
  | ReadNow (k : Z -> prog R)               (* time.Now().UnixNano() outside a closure *)
  | ReadDflt (k : Z -> prog R)              (* c.defaultExpiration.Load() *)
  | WriteDflt (d : Z) (k : prog R)
  | ReadCb (k : cbid -> prog R)             (* c.evictedCallback.Load() *)
  | WriteCb (c : cbid) (k : prog R)
  | Emit (e : event) (k : prog R).

  Arguments Ret {R}.
  Arguments MapCall {R}.
  Arguments ReadNow {R}.
  Arguments ReadDflt {R}.
  Arguments WriteDflt {R}.
  Arguments ReadCb {R}.
  Arguments WriteCb {R}.
  Arguments Emit {R}.

  (* ---------------------------------------------------------------- *)
  (* sequential interpreter over SpecMap *)

  Record cstate := {
    st_map : amap K item;
    st_now : Z;
    st_dflt : Z;
    st_cb : cbid;
  }.

  Definition with_map (s : cstate) (m : amap K item) : cstate :=
    {| st_map := m; st_now := st_now s; st_dflt := st_dflt s; st_cb := st_cb s |}.

  Definition st_env (s : cstate) : env := {| e_now := st_now s; e_dflt := st_dflt s |}.

  (* the user function ran inside the map call: the interpreter reports it *)
  Definition fn_events (o : cmop) (r : imres) : list event :=
    match o, r with
    | CCompute k _, RVal _ _ (Some a) => repeat (EFn k) (a_fn a)
    | _, _ => []
    end.

  Fixpoint run_seq {R} (p : prog R) (s : cstate) : cstate * R * list event :=
    match p with
    | Ret r => (s, r, [])
    | MapCall o k =>
        let '(m', r) := map_step eqd (st_map s) (to_mop (st_env s) o) in
        let '(s', r', evs) := run_seq (k r) (with_map s m') in
        (s', r', fn_events o r ++ evs)
    | ReadNow k => run_seq (k (st_now s)) s
    | ReadDflt k => run_seq (k (st_dflt s)) s
    | WriteDflt d k =>
        run_seq k {| st_map := st_map s; st_now := st_now s; st_dflt := d; st_cb := st_cb s |}
    | ReadCb k => run_seq (k (st_cb s)) s
    | WriteCb c k =>
        run_seq k {| st_map := st_map s; st_now := st_now s; st_dflt := st_dflt s; st_cb := c |}
    | Emit e k => let '(s', r, evs) := run_seq k s in (s', r, e :: evs)
    end.

  (* results of cache methods, as the harness observes them *)
  Inductive cres :=
  | CUnit
  | CVal (v : V) (ok : bool)
  | CValExp (v : V) (e : Z) (ok : bool)     (* e = 0: the zero time.Time *)
  | CValTTL (v : V) (ttl : Z) (ok : bool)
  | CNat (n : nat)
  | CDur (d : Z)
  | CCb (c : cbid)
  | CList (l : list (K * V)).

End Client.

Arguments Ret {K V R}.
Arguments MapCall {K V R}.
Arguments ReadNow {K V R}.
Arguments ReadDflt {K V R}.
Arguments WriteDflt {K V R}.
Arguments ReadCb {K V R}.
Arguments WriteCb {K V R}.
Arguments Emit {K V R}.
Arguments item : clear implicits.
Arguments Build_item {V}.
Arguments closure : clear implicits.
Arguments cmop : clear implicits.
Arguments prog : clear implicits.
Arguments event : clear implicits.
Arguments cres : clear implicits.
Arguments cstate : clear implicits.
Arguments imres : clear implicits.
Arguments aux : clear implicits.
Arguments aux0 {V}.
Arguments CUnit {K V}.
Arguments CNat {K V}.
Arguments CDur {K V}.
Arguments CCb {K V}.
Arguments CVal {K V}.
Arguments CValExp {K V}.
Arguments CValTTL {K V}.
Arguments CList {K V}.
