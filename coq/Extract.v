(* Extract.v -- extraction of the executable models.  ExtrOcamlBasic only:
   bool, option, list, prod, unit, sumbool map to OCaml's; nat, positive, Z, N
   stay Coq datatypes.  No Extract Constant. *)
From Coq Require Extraction.
From Coq Require Import ExtrOcamlBasic.
From CacheV Require Import Base SpecMap Client CacheModel CacheOfModel Ops Exec TableModel TabExec XMachine XExec XMachineS XExecS.
Extraction Language OCaml.
Extraction "model.ml"
  x_new x_newdefault x_step x_spec_next x_spec_okb fn_of vis_of z_push_digit z_digits z_is_neg z_small
  x_machine_init x_machine_step x_store x_loadorstore x_loadandstore x_loadorcompute x_compute x_loadanddelete x_cur_table pack_meta
  s_machine_init s_machine_step s_store s_loadorstore s_loadandstore s_loadorcompute s_compute s_loadanddelete s_range_all s_range_del s_range_store s_range_ins s_cur_table s_word_val
  x_tab_new x_tab_step x_compute_op x_loadorcompute_op x_tab_cur t_seed t_chains t_size.
