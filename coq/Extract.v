(* Extract.v -- extraction of the executable models.  ExtrOcamlBasic only:
   bool, option, list, prod, unit, sumbool map to OCaml's; nat, positive, Z, N
   stay Coq datatypes.  No Extract Constant. *)
From Coq Require Extraction.
From Coq Require Import ExtrOcamlBasic.
From CacheV Require Import Base SpecMap Client CacheModel CacheOfModel Ops Exec TableModel TabExec XMachine XExec.
Extraction Language OCaml.
Extraction "model.ml"
  x_new x_newdefault x_step x_spec_next x_spec_okb fn_of vis_of z_push_digit z_digits z_is_neg z_small
  x_machine_init x_machine_step x_store x_loadorstore x_loadandstore x_loadorcompute x_compute x_loadanddelete x_cur_table pack_meta
  x_tab_new x_tab_step x_compute_op x_loadorcompute_op x_tab_cur t_seed t_chains t_size.
