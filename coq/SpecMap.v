(* SpecMap.v -- what a builtin map[K]V does, for the call surface of
   Map / MapOf (internal/xsync).  This is the specification C03/C04/C10/C11/C12
   refer to.  No proofs here. *)
From CacheV Require Import Base.

Section SpecMap.
  Context {K V A : Type}.
  Variable eqd : forall a b : K, {a = b} + {a <> b}.

  (* A: whatever a user function wants to report besides its result (side effects
     on captured variables, invocation events); the map never looks at it. *)
  Inductive mop :=
  | MLoad (k : K)
  | MStore (k : K) (v : V)
  | MLoadOrStore (k : K) (v : V)
  | MLoadAndStore (k : K) (v : V)
  | MLoadOrCompute (k : K) (f : unit -> V * A)
  | MCompute (k : K) (f : option V -> V * bool * A)  (* (newValue, delete, aux) *)
  | MLoadAndDelete (k : K)
  | MDelete (k : K)
  | MClear
  | MSize
  | MSnapshot.   (* what Range hands to its visitor when nobody interferes *)

  (* value = None stands for "the zero value of V" (nil for interface{}) *)
  Inductive mres :=
  | RUnit
  | RVal (v : option V) (ok : bool) (a : option A)
  | RSize (n : nat)
  | RSnap (l : list (K * V)).

  Definition map_step (m : amap K V) (o : mop) : amap K V * mres :=
    match o with
    | MLoad k =>
        match lookup eqd k m with
        | Some v => (m, RVal (Some v) true None)
        | None => (m, RVal None false None)
        end
    | MStore k v => (insert eqd k v m, RUnit)
    | MLoadOrStore k v =>
        match lookup eqd k m with
        | Some o => (m, RVal (Some o) true None)
        | None => (insert eqd k v m, RVal (Some v) false None)
        end
    | MLoadAndStore k v =>
        match lookup eqd k m with
        | Some o => (insert eqd k v m, RVal (Some o) true None)
        | None => (insert eqd k v m, RVal (Some v) false None)
        end
    | MLoadOrCompute k f =>
        match lookup eqd k m with
        | Some o => (m, RVal (Some o) true None)
        | None => let '(v, a) := f tt in (insert eqd k v m, RVal (Some v) false (Some a))
        end
    | MCompute k f =>
        let old := lookup eqd k m in
        let '(nv, del, a) := f old in
        match old, del with
        | Some o, true => (remove eqd k m, RVal (Some o) false (Some a))
        | Some _, false => (insert eqd k nv m, RVal (Some nv) true (Some a))
        | None, true => (m, RVal None false (Some a))
        | None, false => (insert eqd k nv m, RVal (Some nv) true (Some a))
        end
    | MLoadAndDelete k =>
        match lookup eqd k m with
        | Some o => (remove eqd k m, RVal (Some o) true None)
        | None => (m, RVal None false None)
        end
    | MDelete k => (remove eqd k m, RUnit)
    | MClear => ([], RUnit)
    | MSize => (m, RSize (length m))
    | MSnapshot => (m, RSnap m)
    end.

End SpecMap.

Arguments mop : clear implicits.
Arguments mres : clear implicits.
