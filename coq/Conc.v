(* Conc.v -- the cache methods (the very programs of CacheModel / CacheOfModel)
   run by any number of threads over ONE shared map whose calls are atomic:
   a scheduling step is one map call, one read of the clock / a setting, one
   callback or user-function event, an invocation or a response.

   The clock, the default expiration and the evicted callback are constant
   during a concurrent phase (C02's quantifier; time passing between phases is
   C01).  What Range's snapshot hands to DeleteExpired is chosen by the
   scheduler (any list at all): the real Range copies bucket after bucket
   while other threads write, and nothing in DeleteExpired may depend on it
   being accurate.
   No proofs here. *)
From CacheV Require Import Base SpecMap Client Ops Lin.

Section Conc.
  Context {K V : Type}.
  Variable eqd : forall a b : K, {a = b} + {a <> b}.
  Variable progs : cop K V -> prog K V (cres K V).     (* prog_cache or prog_cacheof *)
  Variables NOW DFLT : Z.
  Variable CB : cbid.

  Notation item := (item V).
  Notation cop := (cop K V).
  Notation cres := (cres K V).

  Inductive tstate :=
  | Idle
  | Running (o : cop) (p : prog K V cres).

  Record cconf := {
    c_map : amap K item;                   (* the shared physical map *)
    c_thr : nat -> tstate;                 (* what each thread is doing *)
    c_todo : nat -> list cop;              (* what it will still do *)
  }.

  Inductive label :=
  | LInv (t : nat) (o : cop)
  | LRes (t : nat) (r : cres)
  | LEv (t : nat) (e : event K V)
  | LGone (t : nat) (k : K) (v : V)          (* ghost: this step physically removed (k, v) *)
  | LTau (t : nat).

  Definition env0 : env := {| e_now := NOW; e_dflt := DFLT |}.

  (* the entries of m that m' no longer has *)
  Definition gone (m m' : amap K item) : list (K * V) :=
    flat_map (fun p => match lookup eqd (fst p) m' with None => [(fst p, iv (snd p))] | Some _ => [] end) m.

  Definition set_thr (s : cconf) (t : nat) (x : tstate) : cconf :=
    {| c_map := c_map s; c_thr := upd (c_thr s) t x; c_todo := c_todo s |}.

  (* one scheduling step of thread t; [orc] is the scheduler's choice of what a
     snapshot returns.  None = the thread has nothing to do (or would write a setting) *)
  Definition cstep (s : cconf) (t : nat) (orc : list (K * item)) : option (cconf * list label) :=
    match c_thr s t with
    | Idle =>
        match c_todo s t with
        | [] => None
        | o :: rest =>
            Some ({| c_map := c_map s; c_thr := upd (c_thr s) t (Running o (progs o));
                     c_todo := upd (c_todo s) t rest |}, [LInv t o])
        end
    | Running o p =>
        match p with
        | Ret r => Some (set_thr s t Idle, [LRes t r])
        | MapCall CSnapshot k => Some (set_thr s t (Running o (k (RSnap orc))), [LTau t])
        | MapCall mo k =>
            let '(m', r) := map_step eqd (c_map s) (to_mop env0 mo) in
            Some ({| c_map := m'; c_thr := upd (c_thr s) t (Running o (k r)); c_todo := c_todo s |},
                  map (LEv t) (fn_events mo r) ++ map (fun kv => LGone t (fst kv) (snd kv)) (gone (c_map s) m') ++ [LTau t])
        | ReadNow k => Some (set_thr s t (Running o (k NOW)), [LTau t])
        | ReadDflt k => Some (set_thr s t (Running o (k DFLT)), [LTau t])
        | ReadCb k => Some (set_thr s t (Running o (k CB)), [LTau t])
        | Emit e k => Some (set_thr s t (Running o k), [LEv t e])
        | WriteDflt _ _ | WriteCb _ _ => None
        end
    end.

  (* a schedule: which thread moves, and what a snapshot (if that is its move) returns *)
  Fixpoint crun (s : cconf) (sched : list (nat * list (K * item))) : cconf * list label :=
    match sched with
    | [] => (s, [])
    | (t, orc) :: rest =>
        match cstep s t orc with
        | Some (s', ls) => let '(s'', ls') := crun s' rest in (s'', ls ++ ls')
        | None => crun s rest                       (* a disabled move is skipped *)
        end
    end.

  Fixpoint history (ls : list label) : list (@hev cop cres) :=
    match ls with
    | [] => []
    | LInv t o :: r => HInv t o :: history r
    | LRes t x :: r => HRes t x :: history r
    | _ :: r => history r
    end.

  Definition cinit (m : amap K item) (todo : nat -> list cop) : cconf :=
    {| c_map := m; c_thr := fun _ => Idle; c_todo := todo |}.

End Conc.
