(* ConcT.v -- Conc.v's machine with a clock that ADVANCES DURING the concurrent
   phase.

   The configuration is Conc.v's (shared atomic map, what every thread is doing
   and will still do) plus the clock [t_now].  The scheduler has one more kind
   of move: [MTick dt] adds dt to the clock (only 0 <= dt is a move; a negative
   dt is skipped like any disabled move) and emits the label [LTick dt].
   A thread move is LITERALLY Conc.cstep with NOW := the current clock: a
   [ReadNow] node reads t_now, a map call hands
   {| e_now := t_now; e_dflt := DFLT |} to its closure (modelling assumption: a
   closure's clock reads happen at the instant of its atomic map call).  DFLT,
   CB constant; CSnapshot answered by the scheduler's oracle, as in Conc.v.
   The history consists of invocations, responses AND ticks, in order.
   No proofs here. *)
From CacheV Require Import Base SpecMap Client Ops Lin LinT Conc.

Section ConcT.
  Context {K V : Type}.
  Variable eqd : forall a b : K, {a = b} + {a <> b}.
  Variable progs : cop K V -> prog K V (cres K V).     (* prog_cache or prog_cacheof *)
  Variable DFLT : Z.
  Variable CB : cbid.

  Notation item := (item V).
  Notation cop := (cop K V).
  Notation cres := (cres K V).

  Record tconf := {
    t_conf : @cconf K V;                   (* map, threads, todo lists: as in Conc.v *)
    t_now : Z;                             (* the clock *)
  }.

  Inductive move :=
  | MThr (t : nat) (orc : list (K * item))   (* thread t moves; orc = what a snapshot (if that is its move) returns *)
  | MTick (dt : Z).                          (* time passes *)

  Inductive tlabel :=
  | TL (l : @label K V)                      (* a label of Conc.v *)
  | LTick (dt : Z).

  Definition tstep (s : tconf) (mv : move) : option (tconf * list tlabel) :=
    match mv with
    | MThr t orc =>
        match cstep eqd progs (t_now s) DFLT CB (t_conf s) t orc with
        | Some (c', ls) => Some ({| t_conf := c'; t_now := t_now s |}, map TL ls)
        | None => None
        end
    | MTick dt =>
        if 0 <=? dt then Some ({| t_conf := t_conf s; t_now := t_now s + dt |}, [LTick dt])
        else None
    end.

  Fixpoint trun (s : tconf) (sched : list move) : tconf * list tlabel :=
    match sched with
    | [] => (s, [])
    | mv :: rest =>
        match tstep s mv with
        | Some (s', ls) => let '(s'', ls') := trun s' rest in (s'', ls ++ ls')
        | None => trun s rest                       (* a disabled move is skipped *)
        end
    end.

  (* histories with ticks (LinT.v) *)
  Fixpoint historyT (ls : list tlabel) : list (@hevT cop cres) :=
    match ls with
    | [] => []
    | TL (LInv t o) :: r => HTInv t o :: historyT r
    | TL (LRes t x) :: r => HTRes t x :: historyT r
    | LTick dt :: r => HTTick dt :: historyT r
    | _ :: r => historyT r
    end.

  (* the labels of Conc.v in a trace (for the C05/C06 monitors) *)
  Fixpoint untick (ls : list tlabel) : list (@label K V) :=
    match ls with
    | [] => []
    | TL l :: r => l :: untick r
    | LTick _ :: r => untick r
    end.

  Definition tinit (now0 : Z) (m : amap K item) (todo : nat -> list cop) : tconf :=
    {| t_conf := cinit m todo; t_now := now0 |}.

End ConcT.

Arguments MThr {K V}.
Arguments MTick {K V}.
Arguments TL {K V}.
Arguments LTick {K V}.
