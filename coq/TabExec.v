(* TabExec.v -- the executable instances of TableModel used by CORR-table-seq:
   integer keys and values, the numbers of the current source (Params.v), and
   the hash function / seed stream observed on the implementation (oracle).
   No proofs here. *)
From CacheV Require Import Base SpecMap TableModel Exec.
From CacheV.gen Require Import Params.
From Coq Require Import NArith.

Definition oracle := list (Z * N * N).           (* key, seed, hash(key, seed) *)

Fixpoint hash_of (o : oracle) (k : Z) (seed : N) : N :=
  match o with
  | [] => 0%N
  | (k', s', h) :: t => if (k =? k')%Z && (seed =? s')%N then h else hash_of t k seed
  end.

Definition seeds_of (l : list N) (g : nat) : N := nth g l 0%N.

(* map.go: bidx := uint64(len(table.buckets)-1) & hash ; top 20 bits kept *)
Definition idx_map (h : N) (len : nat) : nat := N.to_nat (N.land h (N.of_nat len - 1)).
Definition tag_map (h : N) : N := N.shiftr h 44.
(* mapof.go: bidx := uint64(len-1) & h1(hash), h1 = hash >> 7 ; h2 = hash & 0x7f *)
Definition idx_mapof (h : N) (len : nat) : nat := N.to_nat (N.land (N.shiftr h 7) (N.of_nat len - 1)).
Definition tag_mapof (h : N) : N := N.land h 127.

Definition nslots_of (variant : bool) : nat :=
  Z.to_nat (if variant then entriesPerMapOfBucket else entriesPerMapBucket).

(* growThreshold := float64(tableLen) * entriesPerBucket * mapLoadFactor; sumSize() > int64(growThreshold) *)
Definition grow_needed_x (variant : bool) (len size : nat) : bool :=
  (Z.of_nat len * Z.of_nat (nslots_of variant) * mapLoadFactor_num / mapLoadFactor_den <? Z.of_nat size)%Z.

(* sumSize() <= int64((tableLen * entriesPerBucket) / mapShrinkFraction) *)
Definition shrink_policy_x (variant : bool) (len size : nat) : bool :=
  (Z.of_nat size <=? Z.of_nat len * Z.of_nat (nslots_of variant) / mapShrinkFraction)%Z.

Fixpoint next_pow2_fuel (fuel : nat) (p v : Z) : Z :=
  match fuel with
  | O => p
  | S f => if (v <=? p)%Z then p else next_pow2_fuel f (2 * p) v
  end.
Definition nextPowOf2 (v : Z) : Z := next_pow2_fuel 40 1 v.

(* NewMap / NewMapOf: the table length a size hint leads to *)
Definition minlen_of_hint (variant : bool) (hint : Z) : nat :=
  let n := Z.of_nat (nslots_of variant) in
  if (hint <=? defaultMinMapTableLen * n)%Z then Z.to_nat defaultMinMapTableLen
  else Z.to_nat (nextPowOf2 (hint * mapLoadFactor_den / (n * mapLoadFactor_num))).

Definition tmap_z := @tmap Z Z.

Definition x_tab_new (variant : bool) (seeds : list N) (hint : Z) : tmap_z :=
  @new_map Z Z (nslots_of variant) (seeds_of seeds) (minlen_of_hint variant hint).

Definition mop_z := mop Z Z unit.

Definition x_tab_step (variant : bool) (o : oracle) (seeds : list N) (m : tmap_z) (op : mop_z)
  : option (tmap_z * mres Z Z unit) :=
  @table_step Z Z unit zeqd (hash_of o)
    (if variant then idx_mapof else idx_map) (if variant then tag_mapof else tag_map)
    (nslots_of variant) (seeds_of seeds) variant
    (grow_needed_x variant) (shrink_policy_x variant) 64 m op.

Definition x_compute_op (zero : Z) (k : Z) (f : fnid) : mop_z :=
  MCompute k (fun o =>
    let '(nv, del) := fn_of zero f (match o with Some v => v | None => zero end)
                                   (match o with Some _ => true | None => false end) in
    (nv, del, tt)).

Definition x_loadorcompute_op (k v : Z) : mop_z := MLoadOrCompute k (fun _ => (v, tt)).

Definition x_tab_cur (m : tmap_z) : @table Z Z := cur 1%nat m.
