(* TableModel.v -- sequential model of internal/xsync/map.go and mapof.go:
   tables, bucket chains, slots with their hash tags, first-empty-slot
   insertion, in-place update, delete, grow / shrink / clear with re-hashing
   under the new table's seed, the size counter, Range over a table generation.

   One definition, two variants (the only behavioural differences of the two Go
   files at this level):
     variant = false  (map.go):   a delete asks for a shrink when the whole chain is empty
     variant = true   (mapof.go): ... when the bucket it hit is empty
   Everything the layout depends on is a parameter, so that the theorems hold
   for every hash function, seed stream, bucket size, index/tag function and
   grow/shrink policy; the executable instance (Exec) plugs in the numbers of
   the current source (Params.v) and the hashes observed on the implementation.

   A chain is kept flat: a list of slots whose length is a multiple of [nslots];
   bucket j of the chain is slots [j*nslots, (j+1)*nslots).
   No proofs here. *)
From CacheV Require Import Base SpecMap.
From Coq Require Import NArith.

Section TableModel.
  Context {K V A : Type}.
  Variable eqd : forall a b : K, {a = b} + {a <> b}.
  Variable hash : K -> N -> N.            (* hash of a key under a table's seed *)
  Variable idx : N -> nat -> nat.         (* root bucket index of a hash in a table of that many buckets *)
  Variable tag : N -> N.                  (* the bits of the hash kept beside the slot *)
  Variable nslots : nat.                  (* entries per bucket *)
  Variable seeds : nat -> N.              (* seed of the g-th table ever created *)
  Variable variant : bool.
  Variable grow_needed : nat -> nat -> bool.          (* table length, size: chain full -> grow instead of chaining? *)
  Variable shrink_policy : nat -> nat -> bool.        (* table length, size: small enough to halve? *)

  Definition slot := option (N * K * V).
  Definition chain := list slot.

  Record table := { t_seed : N; t_chains : list chain; t_size : nat }.
  Definition t_len (t : table) : nat := length (t_chains t).

  (* generations: a resize appends a table and leaves the old one as it was;
     the last one is current *)
  Record tmap := { tm_tabs : list table; tm_minlen : nat }.

  Definition empty_bucket : chain := repeat None nslots.
  Definition new_table (len : nat) (seed : N) : table :=
    {| t_seed := seed; t_chains := repeat empty_bucket len; t_size := 0 |}.

  Definition dummy_table : table := new_table 1 0%N.
  Definition cur (m : tmap) : table := last (tm_tabs m) dummy_table.
  Definition set_cur (m : tmap) (t : table) : tmap :=
    {| tm_tabs := removelast (tm_tabs m) ++ [t]; tm_minlen := tm_minlen m |}.
  Definition push_tab (m : tmap) (t : table) : tmap :=
    {| tm_tabs := tm_tabs m ++ [t]; tm_minlen := tm_minlen m |}.

  Definition new_map (minlen : nat) : tmap :=
    {| tm_tabs := [new_table minlen (seeds 0)]; tm_minlen := minlen |}.

  (* ---------------- searching a chain ---------------- *)

  (* first slot holding key k (the tag is compared first, as the code does) *)
  Fixpoint find_slot (k : K) (tg : N) (c : chain) (pos : nat) : option (nat * V) :=
    match c with
    | [] => None
    | Some (tg', k', v) :: r =>
        if (tg' =? tg)%N then
          if eqd k k' then Some (pos, v) else find_slot k tg r (S pos)
        else find_slot k tg r (S pos)
    | None :: r => find_slot k tg r (S pos)
    end.

  Fixpoint first_empty (c : chain) (pos : nat) : option nat :=
    match c with
    | [] => None
    | None :: _ => Some pos
    | Some _ :: r => first_empty r (S pos)
    end.

  Fixpoint set_nth (c : chain) (pos : nat) (s : slot) : chain :=
    match c, pos with
    | [], _ => []
    | _ :: r, O => s :: r
    | x :: r, S p => x :: set_nth r p s
    end.

  Definition all_empty (c : chain) : bool := forallb (fun s => match s with None => true | Some _ => false end) c.

  (* the bucket (nslots consecutive slots) containing position pos *)
  Definition bucket_of (c : chain) (pos : nat) : chain :=
    firstn nslots (skipn ((pos / nslots) * nslots) c).

  Fixpoint upd_nth {X} (l : list X) (i : nat) (f : X -> X) : list X :=
    match l, i with
    | [], _ => []
    | x :: r, O => f x :: r
    | x :: r, S j => x :: upd_nth r j f
    end.

  (* ---------------- copying a table (resize) ---------------- *)

  (* appendToBucket: first empty slot of the destination chain, else a new bucket *)
  Definition append_to_chain (c : chain) (s : N * K * V) : chain :=
    match first_empty c 0 with
    | Some p => set_nth c p (Some s)
    | None => c ++ (Some s :: repeat None (nslots - 1))
    end.

  Definition place (dst : table) (kv : K * V) : table :=
    let '(k, v) := kv in
    let h := hash k (t_seed dst) in
    let i := idx h (t_len dst) in
    {| t_seed := t_seed dst;
       t_chains := upd_nth (t_chains dst) i (fun c => append_to_chain c (tag h, k, v));
       t_size := S (t_size dst) |}.

  Definition chain_entries (c : chain) : list (K * V) :=
    flat_map (fun s => match s with Some (_, k, v) => [(k, v)] | None => [] end) c.

  (* bucket by bucket, chain order, slot order *)
  Definition entries (t : table) : list (K * V) := flat_map chain_entries (t_chains t).

  Definition copy_into (src : table) (dst : table) : table := fold_left place (entries src) dst.

  Inductive hint := HGrow | HShrink | HClear.

  (* resize as one sequential step; gen = number of tables created so far *)
  Definition resize (m : tmap) (h : hint) : tmap :=
    let t := cur m in
    let gen := length (tm_tabs m) in
    match h with
    | HGrow => push_tab m (copy_into t (new_table (t_len t * 2) (seeds gen)))
    | HShrink =>
        if Nat.ltb (tm_minlen m) (t_len t) && shrink_policy (t_len t) (t_size t)
        then push_tab m (copy_into t (new_table (t_len t / 2) (seeds gen)))
        else m
    | HClear => push_tab m (new_table (tm_minlen m) (seeds gen))
    end.

  (* ---------------- doCompute ---------------- *)

  Definition res := (option V * bool * option A)%type.

  (* the retry after a grow is bounded by [fuel]; None = out of fuel *)
  Fixpoint do_compute (fuel : nat) (m : tmap) (k : K) (valueFn : option V -> option V * option A)
           (loadIfExists computeOnly : bool) : option (tmap * res) :=
    let t := cur m in
    let h := hash k (t_seed t) in
    let i := idx h (t_len t) in
    let c := nth i (t_chains t) [] in
    match find_slot k (tag h) c 0 with
    | Some (pos, old) =>
        if loadIfExists then Some (m, (Some old, negb computeOnly, None))
        else
          let '(nvo, a) := valueFn (Some old) in     (* None: delete; Some nv: store nv *)
          match nvo with
          | None =>
            let c' := set_nth c pos None in
            let t' := {| t_seed := t_seed t; t_chains := upd_nth (t_chains t) i (fun _ => c');
                         t_size := pred (t_size t) |} in
            let m' := set_cur m t' in
            let left_empty := if variant then all_empty (bucket_of c' pos) else all_empty c' in
            let m'' := if left_empty then resize m' HShrink else m' in
            Some (m'', (Some old, negb computeOnly, a))
          | Some nv =>
            let c' := set_nth c pos (Some (tag h, k, nv)) in
            let t' := {| t_seed := t_seed t; t_chains := upd_nth (t_chains t) i (fun _ => c');
                         t_size := t_size t |} in
            Some (set_cur m t', ((if computeOnly then Some nv else Some old), true, a))
          end
    | None =>
        match first_empty c 0 with
        | Some p =>
            let '(nvo, a) := valueFn None in
            match nvo with
            | None => Some (m, (None, false, a))
            | Some nv =>
              let c' := set_nth c p (Some (tag h, k, nv)) in
              let t' := {| t_seed := t_seed t; t_chains := upd_nth (t_chains t) i (fun _ => c');
                           t_size := S (t_size t) |} in
              Some (set_cur m t', (Some nv, computeOnly, a))
            end
        | None =>
            if grow_needed (t_len t) (t_size t) then
              match fuel with
              | O => None
              | S fuel' => do_compute fuel' (resize m HGrow) k valueFn loadIfExists computeOnly
              end
            else
              let '(nvo, a) := valueFn None in
              match nvo with
              | None => Some (m, (None, false, a))
              | Some nv =>
                let c' := c ++ (Some (tag h, k, nv) :: repeat None (nslots - 1)) in
                let t' := {| t_seed := t_seed t; t_chains := upd_nth (t_chains t) i (fun _ => c');
                             t_size := S (t_size t) |} in
                Some (set_cur m t', (Some nv, computeOnly, a))
              end
        end
    end.

  (* Load: lock-free in Go; sequentially it is the same search *)
  Definition load (m : tmap) (k : K) : option V :=
    let t := cur m in
    let h := hash k (t_seed t) in
    match find_slot k (tag h) (nth (idx h (t_len t)) (t_chains t) []) 0 with
    | Some (_, v) => Some v
    | None => None
    end.

  (* ---------------- Range ---------------- *)

  (* the pairs Range hands to its visitor when nobody interferes: the table
     generation it loaded, bucket by bucket, chain order, slot order *)
  Definition snapshot (m : tmap) : list (K * V) := entries (cur m).

  (* ---------------- the API, as in SpecMap ---------------- *)

  Definition rv (r : res) : mres K V A := let '(v, ok, a) := r in RVal v ok a.

  Definition table_step (fuel : nat) (m : tmap) (o : mop K V A) : option (tmap * mres K V A) :=
    let via (k : K) (f : option V -> option V * option A) (lie co : bool) (wrap : res -> mres K V A) :=
      match do_compute fuel m k f lie co with
      | Some (m', r) => Some (m', wrap r)
      | None => None
      end in
    match o with
    | MLoad k =>
        Some (m, match load m k with Some v => RVal (Some v) true None | None => RVal None false None end)
    | MStore k v => via k (fun _ => (Some v, None)) false false (fun _ => RUnit)
    | MLoadOrStore k v => via k (fun _ => (Some v, None)) true false rv
    | MLoadAndStore k v => via k (fun _ => (Some v, None)) false false rv
    | MLoadOrCompute k f =>
        (* the read-only fast path first: Load; on a hit the function is not called *)
        match load m k with
        | Some v => Some (m, RVal (Some v) true None)
        | None => via k (fun _ => let '(v, a) := f tt in (Some v, Some a)) true false rv
        end
    | MCompute k f =>
        via k (fun o => let '(nv, del, a) := f o in ((if del then None else Some nv), Some a)) false true rv
    | MLoadAndDelete k =>
        via k (fun _ => (None, None)) false false rv
    | MDelete k =>
        via k (fun _ => (None, None)) false false (fun _ => RUnit)
    | MClear => Some (resize m HClear, RUnit)
    | MSize => Some (m, RSize (t_size (cur m)))
    | MSnapshot => Some (m, RSnap (snapshot m))
    end.

End TableModel.
