(* XMachineS.v -- the concurrent machine of internal/xsync/map.go (Map, string
   keys): the sibling of XMachine.v (MapOf).  Any number of threads; ONE
   scheduling step = one sync/atomic call, Mutex.Lock/Unlock, Cond.Wait/Broadcast
   or runtime.Gosched of the Go code, together with the plain (non-atomic) code
   that follows it up to the next such call -- exactly what the controlled
   scheduler of the harness can interleave (bin/vlib/xcorrs.py compares the two
   step by step).

   What differs from MapOf and is modelled literally here:
   - the bucket lock is a TTAS spin lock in bit 0 of the bucket's topHashMutex
     word: lockBucket = LoadUint64, (Gosched, LoadUint64)* while the bit is set,
     CompareAndSwapUint64, (Gosched and start over) when the CAS fails;
     unlockBucket = LoadUint64 then StoreUint64.  A thread that finds the lock
     taken is NOT disabled, it spins through Gosched steps as the code does;
   - the word also holds, per slot, a presence bit and the top 20 bits of the
     key's hash; eraseTopHash clears the presence bit only (the 20 bits stay);
   - a slot is two pointer cells, key and value, written by separate atomic
     stores; readers take the value / key / value snapshot of Load and retry
     when the value pointer changed.  Value pointers are fresh allocations
     (nvp := unsafe.Pointer(&newValue)): a value cell holds the value and a
     unique identity drawn from a global allocation counter, and the reader's
     pointer comparison is Nat.eqb on identities;
   - the locked scan of doCompute executes one LoadUint64 per bucket of the
     chain; keys and values are read plainly there;
   - resize: for !CAS { waitForResize(); if hint != mapClearHint { return } },
     and the shrink branch "tableLen > m.minTableLen && table.sumSize() <= ..."
     does not sum when the first conjunct fails.
   Range may be given a visitor that calls the map (Store / Delete of the
   harness's visitors): such a call runs on the same thread, between two visits.

   Shared state: the table generations (a resize allocates a new one and
   publishes it; old ones stay readable), per root bucket a flat chain of slots
   (bucket j of a chain = slots [j*nslots, (j+1)*nslots)) and the topHashMutex
   words of the buckets of the chain, the striped size counter of each table,
   the resizing flag, resizeMu and the wait set of resizeCond, the growth /
   shrink totals, the allocation counter.  Per thread: program counter with its
   locals, and the frame of a Range whose visitor is inside a call.
   No proofs here. *)
From CacheV Require Import Base SpecMap.
From Coq Require Import NArith.
Local Open Scope nat_scope.

Section XMachineS.
  Context {K V : Type}.
  Variable eqd : forall a b : K, {a = b} + {a <> b}.
  Variable hash : K -> N -> N.
  Variable idx : N -> nat -> nat.
  Variable tophash : N -> N.                     (* the 20 most significant bits of a hash *)
  Variable nslots : nat.
  Variable seeds : nat -> N.
  Variable grow_needed : nat -> Z -> bool.       (* table length, counter sum *)
  Variable shrink_policy : nat -> Z -> bool.
  Variable nstripes : nat -> nat.                (* table length -> number of counter stripes *)
  Variable minlen : nat.
  Variable grow_only : bool.

  (* ---------------- shared memory ---------------- *)

  (* a slot: two pointer cells, each written by one atomic store.  The nat of a
     value cell is the identity of the pointer (fresh at every store) *)
  Record mslot := {
    ms_key : option K;                (* keys[i];   None = nil *)
    ms_val : option (V * nat);        (* values[i]; None = nil *)
  }.
  Definition empty_mslot : mslot := {| ms_key := None; ms_val := None |}.

  (* the topHashMutex word of a bucket.  Only root buckets are ever locked *)
  Record bword := {
    w_lock : option nat;              (* bit 0: the holder *)
    w_top : list (bool * N);          (* per slot: presence bit, 20-bit top hash (stale after an erase) *)
  }.
  Definition empty_bword : bword := {| w_lock := None; w_top := repeat (false, 0%N) nslots |}.

  (* the 64-bit value of the word:
     | top hash 0 (20) | top hash 1 (20) | top hash 2 (20) | presence bits (3) | mutex (1) | *)
  Fixpoint top_val (l : list (bool * N)) (i : nat) : N :=
    match l with
    | [] => 0%N
    | (p, th) :: r =>
        (N.shiftl th (N.of_nat (64 - 20 * S i)) + (if p then N.shiftl 1 (N.of_nat (S i)) else 0) + top_val r (S i))%N
    end.
  Definition word_val (w : bword) : N :=
    ((match w_lock w with Some _ => 1 | None => 0 end) + top_val (w_top w) 0)%N.

  Record mtable := {
    m_seed : N;
    m_chains : list (list mslot);     (* per root bucket: the flat chain *)
    m_words : list (list bword);      (* per root bucket: the words of the buckets of its chain *)
    m_size : list Z;                  (* counter stripes *)
  }.
  Definition m_len (t : mtable) : nat := length (m_chains t).

  Definition new_mtable (len : nat) (seed : N) : mtable :=
    {| m_seed := seed; m_chains := repeat (repeat empty_mslot nslots) len;
       m_words := repeat [empty_bword] len; m_size := repeat 0%Z (nstripes len) |}.

  (* ---------------- operations and their results ---------------- *)

  Record scx := { sc_k : K; sc_f : option V -> option V; sc_ev : bool; sc_lie : bool; sc_co : bool }.

  Inductive sop :=
  | SLoad (k : K)
  | SCompute (k : K) (f : option V -> option V) (ev lie co : bool)   (* doCompute; f: None = delete; ev: a user function;
                                                                        lie = loadIfExists, co = computeOnly *)
  | SClear
  | SSize
  | SRange (vf : K -> V -> option scx).   (* the visitor: the doCompute call (Store, Delete, ...) it makes on the map
                                             for a visited pair, if any; it always returns true *)

  Inductive sres :=
  | SRVal (v : option V) (ok : bool)
  | SRNat (n : Z)
  | SRUnit.

  (* what to do once a resize / wait is over *)
  Inductive scont :=
  | SKRetry (cx : scx)            (* goto compute_attempt *)
  | SKReturn (r : sres).          (* return r to the caller *)

  Inductive shint := SHGrow | SHShrink | SHClear.

  (* what to do when Load is over: plain Load, or the read-only path of doCompute *)
  Inductive slcont := SLPlain | SLFast (cx : scx).

  (* who called lockBucket: what runs once the CAS has succeeded *)
  Inductive lockk :=
  | LKCompute (cx : scx)                          (* doCompute: on to resizeInProgress() *)
  | LKCopy (hn : shint) (kt : scont) (new : nat)  (* copyBucket: the plain copy into table new *)
  | LKRange (vf : K -> V -> option scx).          (* Range: the plain copy of the entries *)

  Inductive spc :=
  | QStart                                            (* the goroutine has not run yet *)
  | QIdle
  | QRet (r : sres)                                   (* about to return r *)
  (* -- Load -- *)
  | QL_Table (k : K) (lc : slcont)
  | QL_Top (k : K) (lc : slcont) (tab : nat) (h : N) (bi : nat)                          (* LoadUint64 b.topHashMutex *)
  | QL_Val (k : K) (lc : slcont) (tab : nat) (h : N) (bi : nat) (todo : list nat)        (* vp := LoadPointer values[i] *)
  | QL_Key (k : K) (lc : slcont) (tab : nat) (h : N) (bi : nat) (todo : list nat) (vp : option (V * nat))  (* kp := LoadPointer keys[i] *)
  | QL_Val2 (k : K) (lc : slcont) (tab : nat) (h : N) (bi : nat) (todo : list nat) (v : V) (id : nat)      (* LoadPointer values[i] again *)
  | QL_Next (k : K) (lc : slcont) (tab : nat) (h : N) (bi : nat)                         (* LoadPointer b.next *)
  (* -- lockBucket / unlockBucket on root bucket b of table tab -- *)
  | QK_Load (tab b : nat) (lk : lockk)                (* v = LoadUint64(mu) *)
  | QK_Spin (tab b : nat) (lk : lockk)                (* Gosched: the bit was set *)
  | QK_CAS (tab b : nat) (v : bword) (lk : lockk)     (* CompareAndSwapUint64(mu, v, v|1) *)
  | QK_Yield (tab b : nat) (lk : lockk)               (* Gosched: the CAS failed *)
  | QU_Load (tab b : nat) (rg : option (list (K * V) * (K -> V -> option scx))) (after : spc)   (* v := LoadUint64(mu) *)
  | QU_Store (tab b : nat) (v : bword) (rg : option (list (K * V) * (K -> V -> option scx))) (after : spc)
                                                      (* StoreUint64(mu, v&^1); rg: Range's copied entries and visitor: the visits follow *)
  (* -- doCompute -- *)
  | QW_Table (cx : scx)
  | QW_ChkRes (cx : scx) (tab : nat)
  | QW_ChkTab (cx : scx) (tab : nat)
  | QW_Scan (cx : scx) (tab : nat) (bi : nat) (emp : option nat) (ne : nat)  (* LoadUint64 b.topHashMutex, then the plain scan of bucket bi;
                                                                                emp = emptyb/emptyidx (flat position), ne = hintNonEmpty *)
  | QW_D1 (cx : scx) (tab : nat) (pos : nat) (old : V) (w : bword) (ne : nat)  (* StoreUint64 eraseTopHash(topHashes, i) *)
  | QW_D2 (cx : scx) (tab : nat) (pos : nat) (old : V) (ne : nat)              (* StorePointer values[i] nil *)
  | QW_D3 (cx : scx) (tab : nat) (pos : nat) (old : V) (ne : nat)              (* StorePointer keys[i] nil *)
  | QW_U1 (cx : scx) (tab : nat) (pos : nat) (old nv : V)                      (* StorePointer values[i] nvp *)
  | QW_I0 (cx : scx) (tab : nat) (pos : nat) (nv : V)                          (* LoadUint64 emptyb.topHashMutex *)
  | QW_I1 (cx : scx) (tab : nat) (pos : nat) (nv : V) (w : bword)              (* StoreUint64 storeTopHash(hash, topHashes, emptyidx) *)
  | QW_I2 (cx : scx) (tab : nat) (pos : nat) (nv : V)                          (* StorePointer values[emptyidx] *)
  | QW_I3 (cx : scx) (tab : nat) (pos : nat) (nv : V)                          (* StorePointer keys[emptyidx] *)
  | QW_Sum (cx : scx) (tab : nat) (i : nat) (acc : Z)                          (* chain full: sumSize() *)
  | QW_N1 (cx : scx) (tab : nat) (nv : V)                                      (* StorePointer b.next (new bucket) *)
  | QA_Add (tab b : nat) (delta : Z) (after : spc)                             (* table.addSize *)
  (* -- resize -- *)
  | QR_FastSum (known : nat) (kt : scont) (i : nat) (acc : Z)      (* shrink fast path: knownTable.sumSize() *)
  | QR_CAS (hn : shint) (kt : scont)
  | QR_Table (hn : shint) (kt : scont)
  | QR_ShSum (kt : scont) (tab : nat) (i : nat) (acc : Z)
  | QR_Stat (hn : shint) (kt : scont) (tab : nat)                  (* AddInt64 totalGrowths / totalShrinks *)
  | QR_Publish (kt : scont) (new : nat)
  | QR_FinLock (kt : scont)                                        (* also the abandoned-shrink path *)
  | QR_FinStore (kt : scont)
  | QR_FinBcast (kt : scont)
  | QR_FinUnlock (kt : scont)
  (* -- waitForResize -- *)
  | QT_Lock (hn : option shint) (kt : scont)           (* hn = Some h: called from resize (lost the CAS) *)
  | QT_Load (hn : option shint) (kt : scont)
  | QT_Wait (hn : option shint) (kt : scont)
  | QT_Waiting (hn : option shint) (kt : scont)        (* in the wait set of resizeCond *)
  | QT_Relock (hn : option shint) (kt : scont)
  | QT_Unlock (hn : option shint) (kt : scont)
  (* -- Range / Size / Clear -- *)
  | QG_Table (vf : K -> V -> option scx)
  | QS_Table
  | QS_Sum (tab : nat) (i : nat) (acc : Z)
  | QC_Table.

  (* Range between two visits: the copied entries still to visit, the visitor, and where
     Range goes on after the last of them (the next bucket's lockBucket, or the return) *)
  Record rframe := { rf_rest : list (K * V); rf_vf : K -> V -> option scx; rf_after : spc }.

  Record mstate := {
    h_tabs : list mtable;               (* all tables ever allocated *)
    h_cur : nat;                        (* m.table *)
    h_resizing : bool;
    h_rmu : option nat;                 (* resizeMu holder *)
    h_growths : Z;                      (* totalGrowths *)
    h_shrinks : Z;                      (* totalShrinks *)
    h_alloc : nat;                      (* value pointers allocated so far *)
    h_pc : nat -> spc;
    h_todo : nat -> list sop;
    h_frame : nat -> option rframe;     (* a Range whose visitor is inside a call on the map *)
  }.

  (* ---------------- labels: what the correspondence compares ---------------- *)

  Inductive skind :=
  | SKLoadPtr (nil : bool) | SKStorePtr (nil : bool)
  | SKLoadU64 (w : N) | SKStoreU64 (w : N) | SKCASU64 (ok : bool)     (* w: the exact 64-bit value *)
  | SKLoadI64 (v : Z) | SKStoreI64 (v : Z) | SKAddI64 (v : Z) | SKCASI64 (ok : bool)
  | SKLock (relock : bool) | SKUnlock | SKWait | SKBcast (woken : nat) | SKGosched | SKStart.

  Inductive slabel :=
  | SInv (t : nat) (o : sop)
  | SRes (t : nat) (r : sres)
  | SStep (t : nat) (k : skind)
  | SFn (t : nat) (k : K) (old : option V)   (* the user function was invoked (with the old value, if loaded) *)
  | SVisit (t : nat) (k : K) (v : V)
  | SSubInv (t : nat) (k : K)                (* the visitor of a Range calls the map ... *)
  | SSubRes (t : nat) (r : sres).            (* ... and the call returns *)

  (* ---------------- helpers ---------------- *)

  Definition stab_at (s : mstate) (i : nat) : mtable := nth i (h_tabs s) (new_mtable 1 0%N).

  Fixpoint supd_nth {X} (l : list X) (i : nat) (f : X -> X) : list X :=
    match l, i with
    | [], _ => []
    | x :: r, O => f x :: r
    | x :: r, S j => x :: supd_nth r j f
    end.

  Definition sset_tab (s : mstate) (i : nat) (f : mtable -> mtable) : mstate :=
    {| h_tabs := supd_nth (h_tabs s) i f; h_cur := h_cur s; h_resizing := h_resizing s; h_rmu := h_rmu s;
       h_growths := h_growths s; h_shrinks := h_shrinks s; h_alloc := h_alloc s; h_pc := h_pc s; h_todo := h_todo s; h_frame := h_frame s |}.

  Definition sset_pc (s : mstate) (t : nat) (p : spc) : mstate :=
    {| h_tabs := h_tabs s; h_cur := h_cur s; h_resizing := h_resizing s; h_rmu := h_rmu s;
       h_growths := h_growths s; h_shrinks := h_shrinks s; h_alloc := h_alloc s;
       h_pc := fun t' => if Nat.eq_dec t' t then p else h_pc s t'; h_todo := h_todo s; h_frame := h_frame s |}.

  Definition sset_flags (s : mstate) (cur : nat) (rz : bool) (mu : option nat) : mstate :=
    {| h_tabs := h_tabs s; h_cur := cur; h_resizing := rz; h_rmu := mu;
       h_growths := h_growths s; h_shrinks := h_shrinks s; h_alloc := h_alloc s; h_pc := h_pc s; h_todo := h_todo s; h_frame := h_frame s |}.

  Definition spush_tab (s : mstate) (tb : mtable) : mstate :=
    {| h_tabs := h_tabs s ++ [tb]; h_cur := h_cur s; h_resizing := h_resizing s; h_rmu := h_rmu s;
       h_growths := h_growths s; h_shrinks := h_shrinks s; h_alloc := h_alloc s; h_pc := h_pc s; h_todo := h_todo s; h_frame := h_frame s |}.

  (* a fresh value pointer was allocated *)
  Definition sbump (s : mstate) : mstate :=
    {| h_tabs := h_tabs s; h_cur := h_cur s; h_resizing := h_resizing s; h_rmu := h_rmu s;
       h_growths := h_growths s; h_shrinks := h_shrinks s; h_alloc := S (h_alloc s); h_pc := h_pc s; h_todo := h_todo s; h_frame := h_frame s |}.

  Definition schain_of (tb : mtable) (b : nat) : list mslot := nth b (m_chains tb) [].
  Definition swords_of (tb : mtable) (b : nat) : list bword := nth b (m_words tb) [].
  Definition sword_at (tb : mtable) (b bi : nat) : bword := nth bi (swords_of tb b) empty_bword.
  Definition sslot_at (tb : mtable) (b pos : nat) : mslot := nth pos (schain_of tb b) empty_mslot.

  Definition sset_chain (tb : mtable) (b : nat) (f : list mslot -> list mslot) : mtable :=
    {| m_seed := m_seed tb; m_chains := supd_nth (m_chains tb) b f; m_words := m_words tb; m_size := m_size tb |}.
  Definition sset_words (tb : mtable) (b : nat) (f : list bword -> list bword) : mtable :=
    {| m_seed := m_seed tb; m_chains := m_chains tb; m_words := supd_nth (m_words tb) b f; m_size := m_size tb |}.
  Definition sset_slot (tb : mtable) (b pos : nat) (f : mslot -> mslot) : mtable :=
    sset_chain tb b (fun c => supd_nth c pos f).
  Definition sset_word (tb : mtable) (b bi : nat) (f : bword -> bword) : mtable :=
    sset_words tb b (fun ws => supd_nth ws bi f).

  (* addSize / addSizePlain: cidx := uint64(len(table.size)-1) & bucketIdx *)
  Definition cidx_of (tb : mtable) (b : nat) : nat :=
    N.to_nat (N.land (N.of_nat (length (m_size tb) - 1)) (N.of_nat b)).
  Definition sadd_size (tb : mtable) (b : nat) (d : Z) : mtable :=
    {| m_seed := m_seed tb; m_chains := m_chains tb; m_words := m_words tb;
       m_size := supd_nth (m_size tb) (cidx_of tb b) (fun z => (z + d)%Z) |}.

  Definition snbuckets (c : list mslot) : nat := length c / nslots.

  Definition shome (tb : mtable) (k : K) : nat := idx (hash k (m_seed tb)) (m_len tb).

  (* topHashMatch / storeTopHash / eraseTopHash *)
  Definition top_match (th : N) (w : bword) (i : nat) : bool :=
    match nth i (w_top w) (false, 0%N) with
    | (true, th') => N.eqb th th'
    | (false, _) => false
    end.
  Definition store_top (w : bword) (i : nat) (th : N) : bword :=
    {| w_lock := w_lock w; w_top := supd_nth (w_top w) i (fun _ => (true, th)) |}.
  Definition erase_top (w : bword) (i : nat) : bword :=
    {| w_lock := w_lock w; w_top := supd_nth (w_top w) i (fun p => (false, snd p)) |}.
  Definition with_lock (w : bword) (o : option nat) : bword := {| w_lock := o; w_top := w_top w |}.

  Definition is_nil {X} (o : option X) : bool := match o with None => true | Some _ => false end.

  (* the locked scan of one bucket in doCompute: keys and values read plainly,
     top hashes taken from the word loaded at the start of the bucket *)
  Inductive scanres :=
  | ScFound (pos : nat) (vp : option (V * nat))
  | ScMiss (emp : option nat) (ne : nat).

  Fixpoint scan_slots (k : K) (th : N) (w : bword) (sl : list mslot) (base i : nat) (emp : option nat) (ne : nat) : scanres :=
    match sl with
    | [] => ScMiss emp ne
    | s :: r =>
        match ms_key s with
        | None => scan_slots k th w r base (S i) (match emp with None => Some (base + i) | Some _ => emp end) ne
        | Some k' =>
            if top_match th w i then
              if eqd k k' then ScFound (base + i) (ms_val s) else scan_slots k th w r base (S i) emp (S ne)
            else scan_slots k th w r base (S i) emp (S ne)
        end
    end.

  Definition sbucket_slots (c : list mslot) (bi : nat) : list mslot := firstn nslots (skipn (bi * nslots) c).

  (* isEmptyBucket(b): no key from bucket bi to the end of the chain *)
  Definition keys_nil_from (c : list mslot) (bi : nat) : bool :=
    forallb (fun s => is_nil (ms_key s)) (skipn (bi * nslots) c).

  (* Range's plain copy of a locked chain *)
  Definition slive_pairs (c : list mslot) : list (K * V) :=
    flat_map (fun s => match ms_key s, ms_val s with Some k, Some (v, _) => [(k, v)] | _, _ => [] end) c.

  Definition ssum_z (l : list Z) : Z := fold_right Z.add 0%Z l.

  (* appendToBucket on the private new table: the first slot of the chain whose key is nil *)
  Fixpoint first_nil_key (c : list mslot) (pos : nat) : option nat :=
    match c with
    | [] => None
    | s :: r => match ms_key s with None => Some pos | Some _ => first_nil_key r (S pos) end
    end.

  Definition sappend (tb : mtable) (b : nat) (th : N) (k : K) (vp : option (V * nat)) : mtable :=
    let cell := {| ms_key := Some k; ms_val := vp |} in
    match first_nil_key (schain_of tb b) 0 with
    | Some pos => sset_word (sset_slot tb b pos (fun _ => cell)) b (pos / nslots) (fun w => store_top w (pos mod nslots) th)
    | None =>
        sset_words (sset_chain tb b (fun c => c ++ cell :: repeat empty_mslot (nslots - 1))) b
                   (fun ws => ws ++ [store_top empty_bword 0 th])
    end.

  (* copyBucket: the pointers are copied, identities included *)
  Definition scopy_chain (src : list mslot) (dst : mtable) : mtable * Z :=
    fold_left (fun (acc : mtable * Z) s =>
      match ms_key s with
      | Some k =>
          let h := hash k (m_seed (fst acc)) in
          (sappend (fst acc) (idx h (m_len (fst acc))) (tophash h) k (ms_val s), (snd acc + 1)%Z)
      | None => acc
      end) src (dst, 0%Z).

  (* ---------------- one scheduling step ---------------- *)

  Definition sstart_cx (cx : scx) : spc := if sc_lie cx then QL_Table (sc_k cx) (SLFast cx) else QW_Table cx.

  Definition sstart_pc (o : sop) : spc :=
    match o with
    | SLoad k => QL_Table k SLPlain
    | SCompute k f ev lie co => sstart_cx {| sc_k := k; sc_f := f; sc_ev := ev; sc_lie := lie; sc_co := co |}
    | SClear => QC_Table
    | SSize => QS_Table
    | SRange vf => QG_Table vf
    end.

  Definition sset_frame (s : mstate) (t : nat) (o : option rframe) : mstate :=
    {| h_tabs := h_tabs s; h_cur := h_cur s; h_resizing := h_resizing s; h_rmu := h_rmu s;
       h_growths := h_growths s; h_shrinks := h_shrinks s; h_alloc := h_alloc s; h_pc := h_pc s; h_todo := h_todo s;
       h_frame := fun t' => if Nat.eq_dec t' t then o else h_frame s t' |}.

  (* Range calls f for the copied entries: every visit is logged; when the visitor calls the
     map the thread stands before the first primitive of that call, the rest is kept in the frame *)
  Fixpoint svisits (s : mstate) (t : nat) (rest : list (K * V)) (vf : K -> V -> option scx) (after : spc)
           (ls : list slabel) : mstate * list slabel :=
    match rest with
    | [] =>
        match after with
        | QRet r => (sset_pc (sset_frame s t None) t QIdle, ls ++ [SRes t r])
        | _ => (sset_pc (sset_frame s t None) t after, ls)
        end
    | (k, v) :: rest' =>
        match vf k v with
        | None => svisits s t rest' vf after (ls ++ [SVisit t k v])
        | Some cx =>
            (sset_pc (sset_frame s t (Some {| rf_rest := rest'; rf_vf := vf; rf_after := after |})) t (sstart_cx cx),
             ls ++ [SVisit t k v; SSubInv t (sc_k cx)])
        end
    end.

  (* go on with [p]; returning is part of the step that reaches QRet.  A call made by a
     Range visitor returns into the Range *)
  Definition sgoto (s : mstate) (t : nat) (p : spc) (ls : list slabel) : mstate * list slabel :=
    match p with
    | QRet r =>
        match h_frame s t with
        | None => (sset_pc s t QIdle, ls ++ [SRes t r])
        | Some fr => svisits s t (rf_rest fr) (rf_vf fr) (rf_after fr) (ls ++ [SSubRes t r])
        end
    | _ => (sset_pc s t p, ls)
    end.

  Definition srun_cont (kt : scont) : spc :=
    match kt with SKRetry cx => QW_Table cx | SKReturn r => QRet r end.

  Definition sfnev (t : nat) (cx : scx) (old : option V) : list slabel := if sc_ev cx then [SFn t (sc_k cx) old] else [].

  Definition sb1 (b : bool) : Z := if b then 1%Z else 0%Z.

  Definition sstripe (tb : mtable) (i : nat) : Z := nth i (m_size tb) 0%Z.
  Definition snstr (tb : mtable) : nat := length (m_size tb).

  Definition swake (p : spc) : spc := match p with QT_Waiting hn kt => QT_Relock hn kt | _ => p end.

  (* lockBucket returned: the plain code up to the caller's next primitive *)
  Definition after_lock (s : mstate) (t : nat) (tab b : nat) (lk : lockk) : mstate * spc :=
    let tb := stab_at s tab in
    match lk with
    | LKCompute cx => (s, QW_ChkRes cx tab)
    | LKCopy hn kt new =>
        let '(nt, copied) := scopy_chain (schain_of tb b) (stab_at s new) in
        (* newTable.addSizePlain(i, copied) runs after unlockBucket in the code; the new table is private until published *)
        let s' := sset_tab s new (fun _ => sadd_size nt b copied) in
        (s', QU_Load tab b None (if Nat.ltb (S b) (m_len tb) then QK_Load tab (S b) (LKCopy hn kt new) else QR_Publish kt new))
    | LKRange vf =>
        (s, QU_Load tab b (Some (slive_pairs (schain_of tb b), vf))
                    (if Nat.ltb (S b) (m_len tb) then QK_Load tab (S b) (LKRange vf) else QRet SRUnit))
    end.

  (* the step of thread t at program counter p (already past the invocation) *)
  Definition sstep_pc (s : mstate) (t : nat) (p : spc) : option (mstate * list slabel) :=
    let st k := SStep t k in
    match p with
    | QStart => Some (sset_pc s t QIdle, [st SKStart])
    | QIdle | QRet _ | QT_Waiting _ _ => None
    (* ---- Load ---- *)
    | QL_Table k lc =>
        let tab := h_cur s in
        Some (sgoto s t (QL_Top k lc tab (hash k (m_seed (stab_at s tab))) 0) [st (SKLoadPtr false)])
    | QL_Top k lc tab h bi =>
        let tb := stab_at s tab in
        let w := sword_at tb (idx h (m_len tb)) bi in
        let todo := filter (top_match (tophash h) w) (seq 0 nslots) in
        Some (sgoto s t (match todo with [] => QL_Next k lc tab h bi | _ => QL_Val k lc tab h bi todo end)
                    [st (SKLoadU64 (word_val w))])
    | QL_Val k lc tab h bi todo =>
        match todo with
        | [] => None
        | i :: _ =>
            let tb := stab_at s tab in
            let vp := ms_val (sslot_at tb (idx h (m_len tb)) (bi * nslots + i)) in
            Some (sgoto s t (QL_Key k lc tab h bi todo vp) [st (SKLoadPtr (is_nil vp))])
        end
    | QL_Key k lc tab h bi todo vp =>
        match todo with
        | [] => None
        | i :: rest =>
            let tb := stab_at s tab in
            let kp := ms_key (sslot_at tb (idx h (m_len tb)) (bi * nslots + i)) in
            let miss := match rest with [] => QL_Next k lc tab h bi | _ => QL_Val k lc tab h bi rest end in
            Some (sgoto s t (match kp, vp with
                             | Some k', Some (v, id) => if eqd k k' then QL_Val2 k lc tab h bi todo v id else miss
                             | _, _ => miss
                             end) [st (SKLoadPtr (is_nil kp))])
        end
    | QL_Val2 k lc tab h bi todo v id =>
        match todo with
        | [] => None
        | i :: _ =>
            let tb := stab_at s tab in
            let vp := ms_val (sslot_at tb (idx h (m_len tb)) (bi * nslots + i)) in
            let same := match vp with Some (_, id') => Nat.eqb id id' | None => false end in
            Some (sgoto s t (if same then
                               match lc with
                               | SLPlain => QRet (SRVal (Some v) true)
                               | SLFast cx => QRet (SRVal (Some v) (negb (sc_co cx)))
                               end
                             else QL_Val k lc tab h bi todo)            (* goto atomic_snapshot *)
                        [st (SKLoadPtr (is_nil vp))])
        end
    | QL_Next k lc tab h bi =>
        let tb := stab_at s tab in
        let c := schain_of tb (idx h (m_len tb)) in
        if Nat.ltb (S bi) (snbuckets c) then Some (sgoto s t (QL_Top k lc tab h (S bi)) [st (SKLoadPtr false)])
        else Some (sgoto s t (match lc with SLPlain => QRet (SRVal None false) | SLFast cx => QW_Table cx end)
                         [st (SKLoadPtr true)])
    (* ---- lockBucket ---- *)
    | QK_Load tab b lk =>
        let w := sword_at (stab_at s tab) b 0 in
        Some (sgoto s t (match w_lock w with Some _ => QK_Spin tab b lk | None => QK_CAS tab b w lk end)
                    [st (SKLoadU64 (word_val w))])
    | QK_Spin tab b lk => Some (sgoto s t (QK_Load tab b lk) [st SKGosched])
    | QK_CAS tab b v lk =>
        let cur := sword_at (stab_at s tab) b 0 in
        if N.eqb (word_val cur) (word_val v) then
          let s1 := sset_tab s tab (fun tb => sset_word tb b 0 (fun _ => with_lock v (Some t))) in
          let '(s2, p') := after_lock s1 t tab b lk in
          Some (sgoto s2 t p' [st (SKCASU64 true)])
        else Some (sgoto s t (QK_Yield tab b lk) [st (SKCASU64 false)])
    | QK_Yield tab b lk => Some (sgoto s t (QK_Load tab b lk) [st SKGosched])
    (* ---- unlockBucket ---- *)
    | QU_Load tab b rg after =>
        let w := sword_at (stab_at s tab) b 0 in
        Some (sgoto s t (QU_Store tab b w rg after) [st (SKLoadU64 (word_val w))])
    | QU_Store tab b v rg after =>
        let w' := with_lock v None in
        let s' := sset_tab s tab (fun tb => sset_word tb b 0 (fun _ => w')) in
        let lab := st (SKStoreU64 (word_val w')) in
        match rg with
        | None => Some (sgoto s' t after [lab])
        | Some (snap, vf) => Some (svisits s' t snap vf after [lab])
        end
    (* ---- doCompute ---- *)
    | QW_Table cx =>
        let tab := h_cur s in
        Some (sgoto s t (QK_Load tab (shome (stab_at s tab) (sc_k cx)) (LKCompute cx)) [st (SKLoadPtr false)])
    | QW_ChkRes cx tab =>
        let b := shome (stab_at s tab) (sc_k cx) in
        Some (sgoto s t (if h_resizing s then QU_Load tab b None (QT_Lock None (SKRetry cx)) else QW_ChkTab cx tab)
                    [st (SKLoadI64 (sb1 (h_resizing s)))])
    | QW_ChkTab cx tab =>
        let b := shome (stab_at s tab) (sc_k cx) in
        Some (sgoto s t (if Nat.eqb (h_cur s) tab then QW_Scan cx tab 0 None 0 else QU_Load tab b None (QW_Table cx))
                    [st (SKLoadPtr false)])
    | QW_Scan cx tab bi emp ne =>
        let tb := stab_at s tab in
        let k := sc_k cx in
        let b := shome tb k in
        let c := schain_of tb b in
        let w := sword_at tb b bi in
        let lab := st (SKLoadU64 (word_val w)) in
        match scan_slots k (tophash (hash k (m_seed tb))) w (sbucket_slots c bi) (bi * nslots) 0 emp ne with
        | ScFound pos (Some (old, _)) =>
            if sc_lie cx then Some (sgoto s t (QU_Load tab b None (QRet (SRVal (Some old) (negb (sc_co cx))))) [lab])
            else
              match sc_f cx (Some old) with
              | None => Some (sgoto s t (QW_D1 cx tab pos old w ne) (lab :: sfnev t cx (Some old)))
              | Some nv => Some (sgoto s t (QW_U1 cx tab pos old nv) (lab :: sfnev t cx (Some old)))
              end
        | ScFound _ None => None                      (* derefValue(nil): a key without value under the lock *)
        | ScMiss emp' ne' =>
            if Nat.ltb (S bi) (snbuckets c) then Some (sgoto s t (QW_Scan cx tab (S bi) emp' ne') [lab])
            else
              match emp' with
              | Some pos =>
                  match sc_f cx None with
                  | None => Some (sgoto s t (QU_Load tab b None (QRet (SRVal None false))) (lab :: sfnev t cx None))
                  | Some nv => Some (sgoto s t (QW_I0 cx tab pos nv) (lab :: sfnev t cx None))
                  end
              | None => Some (sgoto s t (QW_Sum cx tab 0 0%Z) [lab])
              end
        end
    | QW_Sum cx tab i acc =>
        let tb := stab_at s tab in
        let b := shome tb (sc_k cx) in
        let acc' := (acc + sstripe tb i)%Z in
        let lab := st (SKLoadI64 (sstripe tb i)) in
        if Nat.ltb (S i) (snstr tb) then Some (sgoto s t (QW_Sum cx tab (S i) acc') [lab])
        else if grow_needed (m_len tb) acc' then Some (sgoto s t (QU_Load tab b None (QR_CAS SHGrow (SKRetry cx))) [lab])
        else
          match sc_f cx None with
          | None => Some (sgoto s t (QU_Load tab b None (QRet (SRVal None false))) (lab :: sfnev t cx None))
          | Some nv => Some (sgoto s t (QW_N1 cx tab nv) (lab :: sfnev t cx None))
          end
    | QW_D1 cx tab pos old w ne =>
        let b := shome (stab_at s tab) (sc_k cx) in
        let w' := erase_top w (pos mod nslots) in
        Some (sgoto (sset_tab s tab (fun tb => sset_word tb b (pos / nslots) (fun _ => w'))) t (QW_D2 cx tab pos old ne)
                    [st (SKStoreU64 (word_val w'))])
    | QW_D2 cx tab pos old ne =>
        let b := shome (stab_at s tab) (sc_k cx) in
        Some (sgoto (sset_tab s tab (fun tb => sset_slot tb b pos (fun sl => {| ms_key := ms_key sl; ms_val := None |})))
                    t (QW_D3 cx tab pos old ne) [st (SKStorePtr true)])
    | QW_D3 cx tab pos old ne =>
        let b := shome (stab_at s tab) (sc_k cx) in
        let s' := sset_tab s tab (fun tb => sset_slot tb b pos (fun sl => {| ms_key := None; ms_val := ms_val sl |})) in
        let tb' := stab_at s' tab in
        let r := SRVal (Some old) (negb (sc_co cx)) in
        (* leftEmpty := hintNonEmpty == 0 && isEmptyBucket(b) *)
        let left_empty := Nat.eqb ne 0 && keys_nil_from (schain_of tb' b) (pos / nslots) in
        let after :=
          if left_empty then
            (* resize(table, mapShrinkHint): the plain part of its fast path *)
            if grow_only || Nat.eqb minlen (m_len tb') then QRet r else QR_FastSum tab (SKReturn r) 0 0%Z
          else QRet r in
        Some (sgoto s' t (QU_Load tab b None (QA_Add tab b (-1)%Z after)) [st (SKStorePtr true)])
    | QW_U1 cx tab pos old nv =>
        let b := shome (stab_at s tab) (sc_k cx) in
        let id := h_alloc s in
        Some (sgoto (sbump (sset_tab s tab (fun tb => sset_slot tb b pos (fun sl => {| ms_key := ms_key sl; ms_val := Some (nv, id) |}))))
                    t (QU_Load tab b None (QRet (if sc_co cx then SRVal (Some nv) true else SRVal (Some old) true)))
                    [st (SKStorePtr false)])
    | QW_I0 cx tab pos nv =>
        let tb := stab_at s tab in
        let w := sword_at tb (shome tb (sc_k cx)) (pos / nslots) in
        Some (sgoto s t (QW_I1 cx tab pos nv w) [st (SKLoadU64 (word_val w))])
    | QW_I1 cx tab pos nv w =>
        let tb := stab_at s tab in
        let b := shome tb (sc_k cx) in
        let w' := store_top w (pos mod nslots) (tophash (hash (sc_k cx) (m_seed tb))) in
        Some (sgoto (sset_tab s tab (fun tb => sset_word tb b (pos / nslots) (fun _ => w'))) t (QW_I2 cx tab pos nv)
                    [st (SKStoreU64 (word_val w'))])
    | QW_I2 cx tab pos nv =>
        let b := shome (stab_at s tab) (sc_k cx) in
        let id := h_alloc s in
        Some (sgoto (sbump (sset_tab s tab (fun tb => sset_slot tb b pos (fun sl => {| ms_key := ms_key sl; ms_val := Some (nv, id) |}))))
                    t (QW_I3 cx tab pos nv) [st (SKStorePtr false)])
    | QW_I3 cx tab pos nv =>
        let b := shome (stab_at s tab) (sc_k cx) in
        Some (sgoto (sset_tab s tab (fun tb => sset_slot tb b pos (fun sl => {| ms_key := Some (sc_k cx); ms_val := ms_val sl |})))
                    t (QU_Load tab b None (QA_Add tab b 1%Z (QRet (SRVal (Some nv) (sc_co cx))))) [st (SKStorePtr false)])
    | QW_N1 cx tab nv =>
        let tb := stab_at s tab in
        let b := shome tb (sc_k cx) in
        let th := tophash (hash (sc_k cx) (m_seed tb)) in
        let id := h_alloc s in
        let cell := {| ms_key := Some (sc_k cx); ms_val := Some (nv, id) |} in
        Some (sgoto (sbump (sset_tab s tab (fun tb =>
                       sset_words (sset_chain tb b (fun c => c ++ cell :: repeat empty_mslot (nslots - 1))) b
                                  (fun ws => ws ++ [store_top empty_bword 0 th]))))
                    t (QU_Load tab b None (QA_Add tab b 1%Z (QRet (SRVal (Some nv) (sc_co cx))))) [st (SKStorePtr false)])
    | QA_Add tab b delta after =>
        let s' := sset_tab s tab (fun tb => sadd_size tb b delta) in
        let tb' := stab_at s' tab in
        Some (sgoto s' t after [st (SKAddI64 (sstripe tb' (cidx_of tb' b)))])
    (* ---- resize ---- *)
    | QR_FastSum known kt i acc =>
        let tb := stab_at s known in
        let acc' := (acc + sstripe tb i)%Z in
        let lab := st (SKLoadI64 (sstripe tb i)) in
        if Nat.ltb (S i) (snstr tb) then Some (sgoto s t (QR_FastSum known kt (S i) acc') [lab])
        else if shrink_policy (m_len tb) acc' then Some (sgoto s t (QR_CAS SHShrink kt) [lab])
        else Some (sgoto s t (srun_cont kt) [lab])
    | QR_CAS hn kt =>
        if h_resizing s then Some (sgoto s t (QT_Lock (Some hn) kt) [st (SKCASI64 false)])
        else Some (sgoto (sset_flags s (h_cur s) true (h_rmu s)) t (QR_Table hn kt) [st (SKCASI64 true)])
    | QR_Table hn kt =>
        let tab := h_cur s in
        let lab := st (SKLoadPtr false) in
        match hn with
        | SHGrow => Some (sgoto s t (QR_Stat SHGrow kt tab) [lab])
        | SHShrink =>
            (* if tableLen > m.minTableLen && table.sumSize() <= shrinkThreshold: && short-circuits *)
            Some (sgoto s t (if Nat.ltb minlen (m_len (stab_at s tab)) then QR_ShSum kt tab 0 0%Z else QR_FinLock kt) [lab])
        | SHClear =>
            let new := length (h_tabs s) in
            Some (sgoto (spush_tab s (new_mtable minlen (seeds new))) t (QR_Publish kt new) [lab])
        end
    | QR_ShSum kt tab i acc =>
        let tb := stab_at s tab in
        let acc' := (acc + sstripe tb i)%Z in
        let lab := st (SKLoadI64 (sstripe tb i)) in
        if Nat.ltb (S i) (snstr tb) then Some (sgoto s t (QR_ShSum kt tab (S i) acc') [lab])
        else if shrink_policy (m_len tb) acc' then Some (sgoto s t (QR_Stat SHShrink kt tab) [lab])
        else Some (sgoto s t (QR_FinLock kt) [lab])
    | QR_Stat hn kt tab =>
        let tb := stab_at s tab in
        let new := length (h_tabs s) in
        let len' := match hn with SHGrow => m_len tb * 2 | _ => m_len tb / 2 end in
        let s1 := spush_tab s (new_mtable len' (seeds new)) in
        let s2 := {| h_tabs := h_tabs s1; h_cur := h_cur s1; h_resizing := h_resizing s1; h_rmu := h_rmu s1;
                     h_growths := (match hn with SHGrow => h_growths s + 1 | _ => h_growths s end)%Z;
                     h_shrinks := (match hn with SHGrow => h_shrinks s | _ => h_shrinks s + 1 end)%Z;
                     h_alloc := h_alloc s1; h_pc := h_pc s1; h_todo := h_todo s1; h_frame := h_frame s1 |} in
        Some (sgoto s2 t (if Nat.ltb 0 (m_len tb) then QK_Load tab 0 (LKCopy hn kt new) else QR_Publish kt new)
                    [st (SKAddI64 (match hn with SHGrow => h_growths s + 1 | _ => h_shrinks s + 1 end)%Z)])
    | QR_Publish kt new =>
        Some (sgoto (sset_flags s new (h_resizing s) (h_rmu s)) t (QR_FinLock kt) [st (SKStorePtr false)])
    | QR_FinLock kt =>
        match h_rmu s with
        | Some _ => None
        | None => Some (sgoto (sset_flags s (h_cur s) (h_resizing s) (Some t)) t (QR_FinStore kt) [st (SKLock false)])
        end
    | QR_FinStore kt => Some (sgoto (sset_flags s (h_cur s) false (h_rmu s)) t (QR_FinBcast kt) [st (SKStoreI64 0%Z)])
    | QR_FinBcast kt =>
        let s' := {| h_tabs := h_tabs s; h_cur := h_cur s; h_resizing := h_resizing s; h_rmu := h_rmu s;
                     h_growths := h_growths s; h_shrinks := h_shrinks s; h_alloc := h_alloc s;
                     h_pc := fun t' => swake (h_pc s t'); h_todo := h_todo s; h_frame := h_frame s |} in
        Some (sgoto s' t (QR_FinUnlock kt) [st (SKBcast 0)])
    | QR_FinUnlock kt => Some (sgoto (sset_flags s (h_cur s) (h_resizing s) None) t (srun_cont kt) [st SKUnlock])
    (* ---- waitForResize ---- *)
    | QT_Lock hn kt =>
        match h_rmu s with
        | Some _ => None
        | None => Some (sgoto (sset_flags s (h_cur s) (h_resizing s) (Some t)) t (QT_Load hn kt) [st (SKLock false)])
        end
    | QT_Relock hn kt =>
        match h_rmu s with
        | Some _ => None
        | None => Some (sgoto (sset_flags s (h_cur s) (h_resizing s) (Some t)) t (QT_Load hn kt) [st (SKLock true)])
        end
    | QT_Load hn kt =>
        Some (sgoto s t (if h_resizing s then QT_Wait hn kt else QT_Unlock hn kt) [st (SKLoadI64 (sb1 (h_resizing s)))])
    | QT_Wait hn kt => Some (sgoto (sset_flags s (h_cur s) (h_resizing s) None) t (QT_Waiting hn kt) [st SKWait])
    | QT_Unlock hn kt =>
        (* resize: for !CAS { waitForResize(); if hint != mapClearHint { return } } *)
        Some (sgoto (sset_flags s (h_cur s) (h_resizing s) None) t
                    (match hn with Some SHClear => QR_CAS SHClear kt | _ => srun_cont kt end) [st SKUnlock])
    (* ---- Clear / Size / Range ---- *)
    | QC_Table => Some (sgoto s t (QR_CAS SHClear (SKReturn SRUnit)) [st (SKLoadPtr false)])
    | QS_Table => Some (sgoto s t (QS_Sum (h_cur s) 0 0%Z) [st (SKLoadPtr false)])
    | QS_Sum tab i acc =>
        let tb := stab_at s tab in
        let acc' := (acc + sstripe tb i)%Z in
        Some (sgoto s t (if Nat.ltb (S i) (snstr tb) then QS_Sum tab (S i) acc' else QRet (SRNat acc')) [st (SKLoadI64 (sstripe tb i))])
    | QG_Table vf =>
        let tab := h_cur s in
        Some (sgoto s t (if Nat.ltb 0 (m_len (stab_at s tab)) then QK_Load tab 0 (LKRange vf) else QRet SRUnit) [st (SKLoadPtr false)])
    end.

  (* the step of thread t: an idle thread with work first invokes its next call *)
  Definition sstep (s : mstate) (t : nat) : option (mstate * list slabel) :=
    match h_pc s t with
    | QIdle =>
        match h_todo s t with
        | [] => None
        | o :: rest =>
            (* the invocation: the thread now stands before the first primitive of the call ... *)
            let s1 := {| h_tabs := h_tabs s; h_cur := h_cur s; h_resizing := h_resizing s; h_rmu := h_rmu s;
                         h_growths := h_growths s; h_shrinks := h_shrinks s; h_alloc := h_alloc s;
                         h_pc := fun t' => if Nat.eq_dec t' t then sstart_pc o else h_pc s t';
                         h_todo := fun t' => if Nat.eq_dec t' t then rest else h_todo s t'; h_frame := h_frame s |} in
            (* ... and executes it, unless it blocks there *)
            match sstep_pc s1 t (sstart_pc o) with
            | Some (s2, ls) => Some (s2, SInv t o :: ls)
            | None => Some (s1, [SInv t o])
            end
        end
    | p => sstep_pc s t p
    end.

  Definition sinit (len0 : nat) (todo : nat -> list sop) : mstate :=
    {| h_tabs := [new_mtable len0 (seeds 0)]; h_cur := 0; h_resizing := false; h_rmu := None;
       h_growths := 0%Z; h_shrinks := 0%Z; h_alloc := 0; h_pc := fun _ => QStart; h_todo := todo; h_frame := fun _ => None |}.

  Fixpoint srun (s : mstate) (sched : list nat) : mstate * list slabel :=
    match sched with
    | [] => (s, [])
    | t :: rest =>
        match sstep s t with
        | Some (s', ls) => let '(s'', ls') := srun s' rest in (s'', ls ++ ls')
        | None => srun s rest
        end
    end.

  Definition senabled (s : mstate) (t : nat) : bool :=
    match sstep s t with Some _ => true | None => false end.

End XMachineS.
